"""Path queries over a CFG (DESIGN 2.3): flag-sensitive reachability,
must-pass-through with shortest witness paths, no-suspension, held locks,
dominators."""
from __future__ import annotations

import ast
from collections import deque
from typing import Callable, Dict, FrozenSet, Iterable, List, Optional, Set, Tuple

from .cfg import CFG, Edge, Node
from .load import own_nodes

EdgeFilter = Callable[[Edge], bool]
Env = Tuple[Tuple[str, Optional[bool]], ...]


def flag_vars(cfg: CFG) -> Set[str]:
    """Locals that are only ever assigned boolean literals (DESIGN 2.2, flag
    sensitivity)."""
    if '_flag_vars' in cfg.__dict__:
        return cfg.__dict__['_flag_vars']
    good: Dict[str, bool] = {}
    for n in cfg.nodes:
        if n.kind == 'store_name':
            name = n.meta['name']
            v = n.meta.get('value')
            ok = isinstance(v, ast.Constant) and isinstance(v.value, bool)
            good[name] = good.get(name, True) and ok
        elif n.kind in ('del_name',):
            good[n.meta['name']] = False
    out = {k for k, v in good.items() if v and k not in cfg.scope.params}
    # not if declared nonlocal/global or captured & written by a nested function
    for ch in cfg.scope.children:
        for nn in own_nodes(ch.node):
            if isinstance(nn, ast.Nonlocal):
                out -= set(nn.names)
    cfg.__dict__['_flag_vars'] = out
    return out


def _flag_test(test: ast.expr, flags: Set[str]) -> Optional[Tuple[str, bool]]:
    """(`flag`, polarity) if the test is `flag` or `not flag`."""
    if isinstance(test, ast.Name) and test.id in flags:
        return test.id, True
    if (isinstance(test, ast.UnaryOp) and isinstance(test.op, ast.Not)
            and isinstance(test.operand, ast.Name) and test.operand.id in flags):
        return test.operand.id, False
    return None


def _env_get(env: Env, k: str) -> Optional[bool]:
    for a, b in env:
        if a == k:
            return b
    return None


def _env_set(env: Env, k: str, v: Optional[bool]) -> Env:
    d = dict(env)
    d[k] = v
    return tuple(sorted(d.items()))


State = Tuple[int, Env, int]


def _event_recv(cfg: CFG, node: Node, attrs) -> Optional[Tuple[str, str]]:
    """(receiver path, method) if node is / tests `<recv>.<method>()` for a tracked event."""
    a = node.meta.get('test') if node.kind == 'branch' else node.ast
    if isinstance(a, ast.Call) and isinstance(a.func, ast.Attribute) and not a.args:
        rp = cfg.res.path(a.func.value)
        if rp in attrs:
            return rp, a.func.attr
    return None


def _step(cfg: CFG, flags: Set[str], node: Node, env: Env, e: Edge) -> Optional[Env]:
    """Environment after taking edge *e* out of *node*, or None if infeasible."""
    ev = cfg.__dict__.get('event_flags')
    if ev:
        # loop-owned asyncio.Event objects: state known between an explicit
        # set()/clear() and the next suspension point (atomic section)
        if node.suspends:
            for k in ev:
                if _env_get(env, '@' + k) is not None:
                    env = _env_set(env, '@' + k, None)
        if node.kind == 'call' and e.label != 'exc':
            rm = _event_recv(cfg, node, ev)
            if rm and rm[1] in ('set', 'clear'):
                env = _env_set(env, '@' + rm[0], rm[1] == 'set')
            elif rm is None:
                info = node.meta.get('callee')
                if info and info.get('kind') in ('package', 'user', 'unknown', 'method') and \
                        not (isinstance(node.ast.func, ast.Attribute) and cfg.res.path(node.ast.func.value) in ev):
                    pass
        if node.kind == 'branch' and e.label in ('true', 'false'):
            rm = _event_recv(cfg, node, ev)
            if rm and rm[1] == 'is_set':
                val = _env_get(env, '@' + rm[0])
                if val is not None and val != (e.label == 'true'):
                    return None
    if node.kind == 'branch' and e.label in ('true', 'false') and flags:
        ft = _flag_test(node.meta['test'], flags)
        if ft is not None:
            name, pol = ft
            val = _env_get(env, name)
            if val is not None:
                taken = (e.label == 'true')
                if (val == pol) != taken:
                    return None
    if node.kind == 'store_name' and node.meta['name'] in flags and e.label not in ('exc',):
        v = node.meta['value']
        env = _env_set(env, node.meta['name'], bool(v.value))
    return env


def search(cfg: CFG, sources: Iterable[Node], targets: Optional[Set[int]] = None,
           avoid: Optional[Set[int]] = None, edge_ok: Optional[EdgeFilter] = None,
           flag_sensitive: bool = True, start_edges: Optional[Iterable[Edge]] = None,
           init_env: Env = ()) -> Tuple[Set[int], Optional[List[Edge]]]:
    """BFS from *sources* (or from the given *start_edges*).  Returns the set of
    reached node ids and, if *targets* given and one is reached, the shortest
    path to it as a list of edges.  Nodes in *avoid* are not entered (sources
    themselves are exempt)."""
    flags = flag_vars(cfg) if flag_sensitive else set()
    avoid = avoid or set()
    seen: Set[State] = set()
    prev: Dict[State, Tuple[Optional[State], Optional[Edge]]] = {}
    dq: deque = deque()
    reached: Set[int] = set()

    def push(st: State, frm: Optional[State], e: Optional[Edge]) -> None:
        if st in seen:
            return
        seen.add(st)
        prev[st] = (frm, e)
        dq.append(st)

    if start_edges is not None:
        for e in start_edges:
            if edge_ok is not None and not edge_ok(e):
                continue
            env = _step(cfg, flags, e.src, init_env, e)
            if env is None:
                continue
            if e.dst.id in avoid:
                continue
            push((e.dst.id, env, 1), None, e)
    else:
        for s in sources:
            push((s.id, init_env, 0), None, None)

    def mkpath(st: State) -> List[Edge]:
        out: List[Edge] = []
        cur: Optional[State] = st
        while cur is not None:
            frm, e = prev[cur]
            if e is not None:
                out.append(e)
            cur = frm
        out.reverse()
        return out

    first = start_edges is None
    while dq:
        st = dq.popleft()
        nid, env, started = st
        if started:
            reached.add(nid)
            if targets is not None and nid in targets:
                return reached, mkpath(st)
        node = cfg.nodes[nid]
        for e in cfg.succ[nid]:
            if edge_ok is not None and not edge_ok(e):
                continue
            if e.dst.id in avoid:
                continue
            env2 = _step(cfg, flags, node, env, e)
            if env2 is None:
                continue
            push((e.dst.id, env2, 1), st, e)
    return reached, None


def reach(cfg: CFG, sources: Iterable[Node], avoid: Optional[Iterable[Node]] = None,
          edge_ok: Optional[EdgeFilter] = None, flag_sensitive: bool = True,
          start_edges: Optional[Iterable[Edge]] = None) -> Set[int]:
    av = {n.id for n in avoid} if avoid else set()
    r, _ = search(cfg, sources, None, av, edge_ok, flag_sensitive, start_edges)
    return r


def find_path(cfg: CFG, sources: Iterable[Node], targets: Iterable[Node],
              avoid: Optional[Iterable[Node]] = None, edge_ok: Optional[EdgeFilter] = None,
              flag_sensitive: bool = True,
              start_edges: Optional[Iterable[Edge]] = None) -> Optional[List[Edge]]:
    """Shortest path from any source to any target not entering *avoid*."""
    av = {n.id for n in avoid} if avoid else set()
    tg = {n.id for n in targets}
    _, p = search(cfg, sources, tg, av - tg, edge_ok, flag_sensitive, start_edges)
    return p


def must_pass(cfg: CFG, sources: Iterable[Node], targets: Iterable[Node],
              via: Iterable[Node], edge_ok: Optional[EdgeFilter] = None,
              start_edges: Optional[Iterable[Edge]] = None) -> Optional[List[Edge]]:
    """None if every path sources->targets passes a `via` node; otherwise the
    shortest witness path that avoids all `via` nodes."""
    via = list(via)
    tg = [t for t in targets if t not in via]
    return find_path(cfg, sources, tg, avoid=via, edge_ok=edge_ok, start_edges=start_edges)


def render(cfg: CFG, path: Optional[List[Edge]]) -> List[str]:
    if not path:
        return []
    out = []
    first = path[0].src
    out.append(f'{cfg.unit.rel}:{first.line} [{first.kind}] {first.text()}')
    for e in path:
        lab = e.label + (':' + ','.join(sorted(e.classes)) if e.classes else '')
        out.append(f'  --{lab}--> {cfg.unit.rel}:{e.dst.line} [{e.dst.kind}] {e.dst.text()}')
    return out


def no_suspension(cfg: CFG, sources: Iterable[Node], targets: Iterable[Node],
                  edge_ok: Optional[EdgeFilter] = None,
                  start_edges: Optional[Iterable[Edge]] = None) -> Optional[List[Edge]]:
    """None if no path sources->targets crosses a suspension point strictly
    between them; else a witness path through a suspension point.

    Implemented as: is there a path source -> S -> target for a suspending S?"""
    targets = list(targets)
    tg = {t.id for t in targets}
    susp = [n for n in cfg.nodes if n.suspends and n.id not in tg]
    srcs = list(sources)
    src_ids = {s.id for s in srcs}
    for s in susp:
        if s.id in src_ids:
            continue
        p1 = find_path(cfg, srcs, [s], avoid=targets, edge_ok=edge_ok, start_edges=start_edges)
        if p1 is None:
            continue
        # continue from s with the flag env unknown (conservative)
        p2 = find_path(cfg, [s], targets, edge_ok=edge_ok)
        if p2 is not None:
            return p1 + p2
    return None


# ---------------------------------------------------------------------------
# dominators
# ---------------------------------------------------------------------------

def dominators(cfg: CFG, edge_ok: Optional[EdgeFilter] = None) -> Dict[int, Set[int]]:
    nodes = [n.id for n in cfg.nodes]
    entry = cfg.entry.id
    reachable = reach(cfg, [cfg.entry], edge_ok=edge_ok, flag_sensitive=False) | {entry}
    dom: Dict[int, Set[int]] = {n: set(reachable) for n in reachable}
    dom[entry] = {entry}
    changed = True
    order = [n for n in nodes if n in reachable]
    while changed:
        changed = False
        for n in order:
            if n == entry:
                continue
            preds = [e.src.id for e in cfg.pred[n]
                     if e.src.id in reachable and (edge_ok is None or edge_ok(e))]
            if not preds:
                continue
            new = set.intersection(*(dom[p] for p in preds)) | {n}
            if new != dom[n]:
                dom[n] = new
                changed = True
    return dom


# ---------------------------------------------------------------------------
# held locks
# ---------------------------------------------------------------------------

def lexical_withs(cfg: CFG, n: Node) -> List[str]:
    """Resolved access paths of the context managers lexically enclosing n."""
    out = []
    for item in n.withs:
        p = cfg.res.path(item.context_expr)
        out.append(p if p is not None else ast.unparse(item.context_expr))
    return out


def held_locks(cfg: CFG, lock_paths: Iterable[str]) -> Dict[int, FrozenSet[str]]:
    """Forward must-analysis: for every node, the subset of *lock_paths* surely
    held when the node executes.  Sources of 'held': lexical `with L:` and
    `L.acquire()` (normal completion, result not tested => must be the
    unconditional blocking form) ... `L.release()`.
    """
    locks = set(lock_paths)
    gen: Dict[int, Set[str]] = {}
    kill: Dict[int, Set[str]] = {}
    awaited_calls = {id(n.ast.value): n for n in cfg.nodes if n.kind == 'await' and isinstance(n.ast.value, ast.Call)}
    for n in cfg.nodes:
        if n.kind == 'call':
            f = n.ast.func  # type: ignore[union-attr]
            if isinstance(f, ast.Attribute):
                rp = cfg.res.path(f.value)
                if rp in locks:
                    if f.attr == 'acquire' and not n.ast.args and not n.ast.keywords:  # type: ignore[union-attr]
                        # `await sem.acquire()`: held once the await completed normally
                        holder = awaited_calls.get(id(n.ast), n)
                        gen.setdefault(holder.id, set()).add(rp)
                    elif f.attr == 'release':
                        kill.setdefault(n.id, set()).add(rp)
    top = frozenset(locks)
    out_: Dict[int, FrozenSet[str]] = {n.id: top for n in cfg.nodes}
    in_: Dict[int, FrozenSet[str]] = {n.id: top for n in cfg.nodes}
    in_[cfg.entry.id] = frozenset()
    out_[cfg.entry.id] = frozenset()
    work = deque(n.id for n in cfg.nodes)
    while work:
        nid = work.popleft()
        node = cfg.nodes[nid]
        if nid != cfg.entry.id:
            preds = cfg.pred[nid]
            if preds:
                acc: Optional[FrozenSet[str]] = None
                for e in preds:
                    src_out = out_[e.src.id]
                    # an acquire that raises did not acquire
                    if e.label == 'exc' and e.src.id in gen:
                        src_out = src_out - frozenset(gen[e.src.id])
                    acc = src_out if acc is None else (acc & src_out)
                new_in = acc or frozenset()
            else:
                new_in = frozenset()
            in_[nid] = new_in
        new_out = (in_[nid] | frozenset(gen.get(nid, ()))) - frozenset(kill.get(nid, ()))
        if new_out != out_[nid]:
            out_[nid] = new_out
            for e in cfg.succ[nid]:
                work.append(e.dst.id)
    result: Dict[int, FrozenSet[str]] = {}
    for n in cfg.nodes:
        lex = {p for p in lexical_withs(cfg, n) if p in locks}
        # a release()/acquire() node itself executes with in-state
        result[n.id] = frozenset(in_[n.id] | lex)
    return result
