"""Path queries over a CFG (DESIGN 2.3): flag-sensitive reachability,
must-pass-through with shortest witness paths, no-suspension, held locks,
dominators."""
from __future__ import annotations

import ast
from collections import deque
from typing import Callable, Dict, FrozenSet, Iterable, List, Optional, Set, Tuple

from .cfg import CFG, Edge, Node
from .load import own_nodes

EdgeFilter = Callable[[Edge], bool]
Env = Tuple[Tuple[str, Optional[bool]], ...]


def flag_vars(cfg: CFG) -> Set[str]:
    """Locals that are only ever assigned boolean literals (DESIGN 2.2, flag
    sensitivity)."""
    if '_flag_vars' in cfg.__dict__:
        return cfg.__dict__['_flag_vars']
    # locals (and parameters) that are tested as a bare name somewhere, or copied into such a name
    out = set()
    for n in cfg.nodes:
        if n.kind == 'branch' and isinstance(n.meta['test'], ast.Name):
            out.add(n.meta['test'].id)
    changed = True
    while changed:
        changed = False
        for n in cfg.nodes:
            if n.kind == 'store_name' and n.meta['name'] in out:
                v = n.meta.get('value')
                src = v.operand if isinstance(v, ast.UnaryOp) and isinstance(v.op, ast.Not) else v
                if isinstance(src, ast.Name) and src.id not in out:
                    out.add(src.id)
                    changed = True
    for n in cfg.nodes:
        if n.kind == 'del_name':
            out.discard(n.meta['name'])
    # truthiness of a mutable object can change without re-assignment: drop every name that is
    # ever used as the receiver of a method call, subscripted, or captured by a nested function
    def scan(fn_node):
        for x in ast.walk(fn_node):
            if isinstance(x, ast.Attribute) and isinstance(x.value, ast.Name):
                out.discard(x.value.id)
            elif isinstance(x, ast.Subscript) and isinstance(x.value, ast.Name):
                out.discard(x.value.id)
            elif isinstance(x, ast.Starred) and isinstance(x.value, ast.Name):
                out.discard(x.value.id)
    scan(cfg.scope.node)
    for nn in cfg.nodes:
        if nn.meta.get('inlined') and nn.ast is not None and nn.kind in ('call', 'store_sub', 'del_sub', 'load_sub'):
            scan(nn.ast)
    # not if declared nonlocal/global or captured & written by a nested function
    for ch in cfg.scope.children:
        for nn in own_nodes(ch.node):
            if isinstance(nn, ast.Nonlocal):
                out -= set(nn.names)
    cfg.__dict__['_flag_vars'] = out
    return out


def _flag_test(test: ast.expr, flags: Set[str]) -> Optional[Tuple[str, bool]]:
    """(`flag`, polarity) if the test is `flag` or `not flag`."""
    if isinstance(test, ast.Name) and test.id in flags:
        return test.id, True
    if (isinstance(test, ast.UnaryOp) and isinstance(test.op, ast.Not)
            and isinstance(test.operand, ast.Name) and test.operand.id in flags):
        return test.operand.id, False
    return None


def _env_get(env: Env, k: str) -> Optional[bool]:
    for a, b in env:
        if a == k:
            return b
    return None


def _env_set(env: Env, k: str, v: Optional[bool]) -> Env:
    d = dict(env)
    d[k] = v
    return tuple(sorted(d.items()))


State = Tuple[int, Env, int]


def _event_recv(cfg: CFG, node: Node, attrs) -> Optional[Tuple[str, str]]:
    """(receiver path, method) if node is / tests `<recv>.<method>()` for a tracked event."""
    a = node.meta.get('test') if node.kind == 'branch' else node.ast
    if isinstance(a, ast.Call) and isinstance(a.func, ast.Attribute) and not a.args:
        rp = cfg.res.path(a.func.value)
        if rp in attrs:
            return rp, a.func.attr
    return None


def _step(cfg: CFG, flags: Set[str], node: Node, env: Env, e: Edge) -> Optional[Env]:
    """Environment after taking edge *e* out of *node*, or None if infeasible."""
    ev = cfg.__dict__.get('event_flags')
    if ev:
        # loop-owned asyncio.Event objects: state known between an explicit
        # set()/clear() and the next suspension point (atomic section)
        if node.suspends:
            for k in ev:
                if _env_get(env, '@' + k) is not None:
                    env = _env_set(env, '@' + k, None)
        if node.kind == 'call' and e.label != 'exc':
            rm = _event_recv(cfg, node, ev)
            if rm and rm[1] in ('set', 'clear'):
                env = _env_set(env, '@' + rm[0], rm[1] == 'set')
            elif rm is None:
                info = node.meta.get('callee')
                if info and info.get('kind') in ('package', 'user', 'unknown', 'method') and \
                        not (isinstance(node.ast.func, ast.Attribute) and cfg.res.path(node.ast.func.value) in ev):
                    pass
        if node.kind == 'branch' and e.label in ('true', 'false'):
            rm = _event_recv(cfg, node, ev)
            if rm and rm[1] == 'is_set':
                val = _env_get(env, '@' + rm[0])
                if val is not None and val != (e.label == 'true'):
                    return None
    if not flags:
        return env
    # boolean locals: a value tested twice without being re-assigned gives the same answer;
    # copies (`a = b`) and negations (`a = not b`) share the token of their source
    if node.kind == 'branch' and e.label in ('true', 'false'):
        t = node.meta['test']
        if isinstance(t, ast.Name) and t.id in flags:
            tok = _env_get(env, t.id)
            if tok is None and t.id in cfg.scope.params:
                tok = ('p', t.id)
            if tok is not None:
                base, neg = _strip_neg(tok)
                taken = (e.label == 'true')
                if base[0] == 'c':
                    if (base[1] ^ neg) != taken:
                        return None
                else:
                    key = '#' + repr(base)
                    want = taken ^ neg
                    prior = _env_get(env, key)
                    if prior is not None and prior != want:
                        return None
                    env = _env_set(env, key, want)
    if node.kind == 'store_name' and node.meta['name'] in flags and e.label not in ('exc',):
        v = node.meta.get('value')
        stmt = node.meta.get('stmt')
        if isinstance(stmt, ast.AugAssign) or (node.meta.get('inlined_param') and isinstance(v, ast.Name) and v.id == node.meta['name']):
            tok = _env_get(env, node.meta['name']) if node.meta.get('inlined_param') else ('v', node.id)
            if tok is None:
                return env
        elif isinstance(v, ast.Constant) and isinstance(v.value, bool):
            tok = ('c', v.value)
        elif isinstance(v, ast.Name) and v.id in flags:
            tok = _env_get(env, v.id) or (('p', v.id) if v.id in cfg.scope.params else ('v', node.id))
        elif isinstance(v, ast.UnaryOp) and isinstance(v.op, ast.Not):
            if isinstance(v.operand, ast.Name) and v.operand.id in flags:
                src = _env_get(env, v.operand.id) or (('p', v.operand.id) if v.operand.id in cfg.scope.params else ('v', node.id))
                tok = ('n', src)
            else:
                tok = ('n', ('v', node.id))
        else:
            tok = ('v', node.id)
        base, _ = _strip_neg(tok)
        if base == ('v', node.id):
            # a fresh value: forget what an earlier iteration decided about it
            env = tuple(kv for kv in env if kv[0] != '#' + repr(base))
        env = _env_set(env, node.meta['name'], tok)
    return env


def _strip_neg(tok):
    neg = False
    while tok[0] == 'n':
        neg = not neg
        tok = tok[1]
    return tok, neg


def decisions(env: Env) -> Dict[tuple, bool]:
    """{token: truth} decided on the way (tokens ('v', node id) / ('p', name))."""
    out = {}
    for k, v in env:
        if isinstance(k, str) and k.startswith('#'):
            out[eval(k[1:])] = v
    return out


def walk_env(cfg: CFG, path: List[Edge], init_env: Env = ()) -> Env:
    """Environment (boolean-local tokens and decisions) after walking *path*."""
    flags = flag_vars(cfg)
    env = init_env
    for e in path:
        env2 = _step(cfg, flags, e.src, env, e)
        if env2 is None:
            return env
        env = env2
    return env


def search(cfg: CFG, sources: Iterable[Node], targets: Optional[Set[int]] = None,
           avoid: Optional[Set[int]] = None, edge_ok: Optional[EdgeFilter] = None,
           flag_sensitive: bool = True, start_edges: Optional[Iterable[Edge]] = None,
           init_env: Env = ()) -> Tuple[Set[int], Optional[List[Edge]]]:
    """BFS from *sources* (or from the given *start_edges*).  Returns the set of
    reached node ids and, if *targets* given and one is reached, the shortest
    path to it as a list of edges.  Nodes in *avoid* are not entered (sources
    themselves are exempt)."""
    flags = flag_vars(cfg) if flag_sensitive else set()
    avoid = avoid or set()
    seen: Set[State] = set()
    prev: Dict[State, Tuple[Optional[State], Optional[Edge]]] = {}
    dq: deque = deque()
    reached: Set[int] = set()

    def push(st: State, frm: Optional[State], e: Optional[Edge]) -> None:
        if st in seen:
            return
        seen.add(st)
        prev[st] = (frm, e)
        dq.append(st)

    if start_edges is not None:
        for e in start_edges:
            if edge_ok is not None and not edge_ok(e):
                continue
            env = _step(cfg, flags, e.src, init_env, e)
            if env is None:
                continue
            if e.dst.id in avoid:
                continue
            push((e.dst.id, env, 1), None, e)
    else:
        for s in sources:
            push((s.id, init_env, 0), None, None)

    def mkpath(st: State) -> List[Edge]:
        out: List[Edge] = []
        cur: Optional[State] = st
        while cur is not None:
            frm, e = prev[cur]
            if e is not None:
                out.append(e)
            cur = frm
        out.reverse()
        return out

    first = start_edges is None
    while dq:
        st = dq.popleft()
        nid, env, started = st
        if started:
            reached.add(nid)
            if targets is not None and nid in targets:
                return reached, mkpath(st)
        node = cfg.nodes[nid]
        for e in cfg.succ[nid]:
            if edge_ok is not None and not edge_ok(e):
                continue
            if e.dst.id in avoid:
                continue
            env2 = _step(cfg, flags, node, env, e)
            if env2 is None:
                continue
            push((e.dst.id, env2, 1), st, e)
    return reached, None


def envs_at(cfg: CFG, node: Node, limit: int = 64) -> List[Env]:
    """Distinct path environments (boolean-local decisions, event flags) with which *node* can be
    reached from the entry; used as `init_env` of queries that start in the middle of a function."""
    flags = flag_vars(cfg)
    seen: Set[Tuple[int, Env]] = set()
    out: List[Env] = []
    dq: deque = deque([(cfg.entry.id, ())])
    seen.add((cfg.entry.id, ()))
    while dq:
        nid, env = dq.popleft()
        if nid == node.id:
            if env not in out:
                out.append(env)
                if len(out) >= limit:
                    break
            continue
        n = cfg.nodes[nid]
        for e in cfg.succ[nid]:
            env2 = _step(cfg, flags, n, env, e)
            if env2 is None:
                continue
            st = (e.dst.id, env2)
            if st not in seen:
                seen.add(st)
                dq.append(st)
    return out or [()]


def reach(cfg: CFG, sources: Iterable[Node], avoid: Optional[Iterable[Node]] = None,
          edge_ok: Optional[EdgeFilter] = None, flag_sensitive: bool = True,
          start_edges: Optional[Iterable[Edge]] = None) -> Set[int]:
    av = {n.id for n in avoid} if avoid else set()
    r, _ = search(cfg, sources, None, av, edge_ok, flag_sensitive, start_edges)
    return r


def find_path(cfg: CFG, sources: Iterable[Node], targets: Iterable[Node],
              avoid: Optional[Iterable[Node]] = None, edge_ok: Optional[EdgeFilter] = None,
              flag_sensitive: bool = True,
              start_edges: Optional[Iterable[Edge]] = None,
              init_envs: Optional[List[Env]] = None) -> Optional[List[Edge]]:
    """Shortest path from any source to any target not entering *avoid*."""
    av = {n.id for n in avoid} if avoid else set()
    tg = {n.id for n in targets}
    sources = list(sources)
    start_edges = list(start_edges) if start_edges is not None else None
    if init_envs is not None or not flag_sensitive:
        for env in (init_envs or [()]):
            _, p = search(cfg, sources, tg, av - tg, edge_ok, flag_sensitive, start_edges, init_env=env)
            if p is not None:
                return p
        return None
    # a query that starts in the middle of the function inherits what the paths leading there decided
    if start_edges is not None:
        by_src: Dict[int, List[Edge]] = {}
        for e in start_edges:
            by_src.setdefault(e.src.id, []).append(e)
        for sid, es in by_src.items():
            for env in _envs_cached(cfg, cfg.nodes[sid]):
                _, p = search(cfg, [], tg, av - tg, edge_ok, flag_sensitive, es, init_env=env)
                if p is not None:
                    return p
        return None
    for s_ in sources:
        envs = [()] if s_ is cfg.entry else _envs_cached(cfg, s_)
        for env in envs:
            _, p = search(cfg, [s_], tg, av - tg, edge_ok, flag_sensitive, None, init_env=env)
            if p is not None:
                return p
    return None


def _envs_cached(cfg: CFG, node: Node) -> List[Env]:
    cache = cfg.__dict__.setdefault('_envs_at', {})
    if node.id not in cache:
        cache[node.id] = envs_at(cfg, node)
    return cache[node.id]


def must_pass(cfg: CFG, sources: Iterable[Node], targets: Iterable[Node],
              via: Iterable[Node], edge_ok: Optional[EdgeFilter] = None,
              start_edges: Optional[Iterable[Edge]] = None,
              init_envs: Optional[List[Env]] = None) -> Optional[List[Edge]]:
    """None if every path sources->targets passes a `via` node; otherwise the
    shortest witness path that avoids all `via` nodes."""
    via = list(via)
    tg = [t for t in targets if t not in via]
    return find_path(cfg, sources, tg, avoid=via, edge_ok=edge_ok, start_edges=start_edges, init_envs=init_envs)


def render(cfg: CFG, path: Optional[List[Edge]]) -> List[str]:
    if not path:
        return []
    out = []
    first = path[0].src
    out.append(f'{cfg.unit.rel}:{first.line} [{first.kind}] {first.text()}')
    for e in path:
        lab = e.label + (':' + ','.join(sorted(e.classes)) if e.classes else '')
        out.append(f'  --{lab}--> {cfg.unit.rel}:{e.dst.line} [{e.dst.kind}] {e.dst.text()}')
    return out


def no_suspension(cfg: CFG, sources: Iterable[Node], targets: Iterable[Node],
                  edge_ok: Optional[EdgeFilter] = None,
                  start_edges: Optional[Iterable[Edge]] = None) -> Optional[List[Edge]]:
    """None if no path sources->targets crosses a suspension point strictly
    between them; else a witness path through a suspension point.

    Implemented as: is there a path source -> S -> target for a suspending S?"""
    targets = list(targets)
    tg = {t.id for t in targets}
    susp = [n for n in cfg.nodes if n.suspends and n.id not in tg]
    srcs = list(sources)
    src_ids = {s.id for s in srcs}
    for s in susp:
        if s.id in src_ids:
            continue
        p1 = find_path(cfg, srcs, [s], avoid=targets, edge_ok=edge_ok, start_edges=start_edges)
        if p1 is None:
            continue
        # continue from s with the flag env unknown (conservative)
        p2 = find_path(cfg, [s], targets, edge_ok=edge_ok)
        if p2 is not None:
            return p1 + p2
    return None


# ---------------------------------------------------------------------------
# dominators
# ---------------------------------------------------------------------------

def dominators(cfg: CFG, edge_ok: Optional[EdgeFilter] = None) -> Dict[int, Set[int]]:
    nodes = [n.id for n in cfg.nodes]
    entry = cfg.entry.id
    reachable = reach(cfg, [cfg.entry], edge_ok=edge_ok, flag_sensitive=False) | {entry}
    dom: Dict[int, Set[int]] = {n: set(reachable) for n in reachable}
    dom[entry] = {entry}
    changed = True
    order = [n for n in nodes if n in reachable]
    while changed:
        changed = False
        for n in order:
            if n == entry:
                continue
            preds = [e.src.id for e in cfg.pred[n]
                     if e.src.id in reachable and (edge_ok is None or edge_ok(e))]
            if not preds:
                continue
            new = set.intersection(*(dom[p] for p in preds)) | {n}
            if new != dom[n]:
                dom[n] = new
                changed = True
    return dom


# ---------------------------------------------------------------------------
# held locks
# ---------------------------------------------------------------------------

def lexical_withs(cfg: CFG, n: Node) -> List[str]:
    """Resolved access paths of the context managers lexically enclosing n."""
    out = []
    for item in n.withs:
        p = cfg.res.path(item.context_expr)
        out.append(p if p is not None else ast.unparse(item.context_expr))
    return out


def held_locks(cfg: CFG, lock_paths: Iterable[str]) -> Dict[int, FrozenSet[str]]:
    """Forward must-analysis: for every node, the subset of *lock_paths* surely
    held when the node executes.  Sources of 'held': lexical `with L:` and
    `L.acquire()` (normal completion, result not tested => must be the
    unconditional blocking form) ... `L.release()`.
    """
    locks = set(lock_paths)
    gen: Dict[int, Set[str]] = {}
    kill: Dict[int, Set[str]] = {}
    awaited_calls = {id(n.ast.value): n for n in cfg.nodes if n.kind == 'await' and isinstance(n.ast.value, ast.Call)}
    for n in cfg.nodes:
        if n.kind == 'call':
            f = n.ast.func  # type: ignore[union-attr]
            if isinstance(f, ast.Attribute):
                rp = cfg.res.path(f.value)
                if rp in locks:
                    if f.attr == 'acquire' and not n.ast.args and not n.ast.keywords:  # type: ignore[union-attr]
                        # `await sem.acquire()`: held once the await completed normally
                        holder = awaited_calls.get(id(n.ast), n)
                        gen.setdefault(holder.id, set()).add(rp)
                    elif f.attr == 'release':
                        kill.setdefault(n.id, set()).add(rp)
    top = frozenset(locks)
    out_: Dict[int, FrozenSet[str]] = {n.id: top for n in cfg.nodes}
    in_: Dict[int, FrozenSet[str]] = {n.id: top for n in cfg.nodes}
    in_[cfg.entry.id] = frozenset()
    out_[cfg.entry.id] = frozenset()
    work = deque(n.id for n in cfg.nodes)
    while work:
        nid = work.popleft()
        node = cfg.nodes[nid]
        if nid != cfg.entry.id:
            preds = cfg.pred[nid]
            if preds:
                acc: Optional[FrozenSet[str]] = None
                for e in preds:
                    src_out = out_[e.src.id]
                    # an acquire that raises did not acquire
                    if e.label == 'exc' and e.src.id in gen:
                        src_out = src_out - frozenset(gen[e.src.id])
                    acc = src_out if acc is None else (acc & src_out)
                new_in = acc or frozenset()
            else:
                new_in = frozenset()
            in_[nid] = new_in
        new_out = (in_[nid] | frozenset(gen.get(nid, ()))) - frozenset(kill.get(nid, ()))
        if new_out != out_[nid]:
            out_[nid] = new_out
            for e in cfg.succ[nid]:
                work.append(e.dst.id)
    result: Dict[int, FrozenSet[str]] = {}
    for n in cfg.nodes:
        lex = {p for p in lexical_withs(cfg, n) if p in locks}
        # a release()/acquire() node itself executes with in-state
        result[n.id] = frozenset(in_[n.id] | lex)
    return result
