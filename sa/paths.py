"""Path queries over a CFG (DESIGN 2.3): flag-sensitive reachability,
must-pass-through with shortest witness paths, no-suspension, held locks,
dominators."""
from __future__ import annotations

import ast
from collections import deque
from typing import Callable, Dict, FrozenSet, Iterable, List, Optional, Set, Tuple

from .cfg import CFG, Edge, Node
from .load import own_nodes

EdgeFilter = Callable[[Edge], bool]
Env = Tuple[Tuple[str, Optional[bool]], ...]


def flag_vars(cfg: CFG) -> Set[str]:
    """Locals whose truth value is tracked along paths (DESIGN 2.2, flag sensitivity): names that
    are tested as a bare name somewhere (or copied into such a name) and whose truthiness cannot
    change without a re-assignment.  See also `nullable_vars`."""
    if '_flag_vars' in cfg.__dict__:
        return cfg.__dict__['_flag_vars']
    # locals (and parameters) that are tested as a bare name somewhere, or copied into such a name
    out = set()
    for n in cfg.nodes:
        if n.kind in ('branch', 'assume') and isinstance(n.meta['test'], ast.Name):
            out.add(n.meta['test'].id)
    changed = True
    while changed:
        changed = False
        for n in cfg.nodes:
            if n.kind == 'store_name' and n.meta['name'] in out:
                v = n.meta.get('value')
                src = v.operand if isinstance(v, ast.UnaryOp) and isinstance(v.op, ast.Not) else v
                if isinstance(src, ast.Name) and src.id not in out:
                    out.add(src.id)
                    changed = True
    for n in cfg.nodes:
        if n.kind == 'del_name':
            out.discard(n.meta['name'])
    # truthiness of a mutable object can change without re-assignment: drop every name that is
    # ever used as the receiver of a method call, subscripted, or captured by a nested function
    def scan(fn_node):
        for x in ast.walk(fn_node):
            if isinstance(x, ast.Attribute) and isinstance(x.value, ast.Name):
                out.discard(x.value.id)
            elif isinstance(x, ast.Subscript) and isinstance(x.value, ast.Name):
                out.discard(x.value.id)
            elif isinstance(x, ast.Starred) and isinstance(x.value, ast.Name):
                out.discard(x.value.id)
    scan(cfg.scope.node)
    for nn in cfg.nodes:
        if nn.meta.get('inlined') and nn.ast is not None and nn.kind in ('call', 'store_sub', 'del_sub', 'load_sub'):
            scan(nn.ast)
    out -= _written_by_nested(cfg)
    cfg.__dict__['_flag_vars'] = out
    return out


def _written_by_nested(cfg: CFG) -> Set[str]:
    out: Set[str] = set()
    for ch in cfg.scope.children:
        for nn in own_nodes(ch.node):
            if isinstance(nn, ast.Nonlocal):
                out |= set(nn.names)
    return out


def _none_test(t: ast.AST, cfg: Optional[CFG] = None) -> Optional[Tuple[str, bool, Optional[str]]]:
    """(name, True, None) for `name is None`, (name, False, None) for `name is not None`; with a *cfg* also
    (name, True/False, S) for `name is S` / `name is not S` (either order) where S is a private sentinel
    (see `sentinels`)."""
    if isinstance(t, ast.Compare) and len(t.ops) == 1 and isinstance(t.ops[0], (ast.Is, ast.IsNot)):
        a, b = t.left, t.comparators[0]
        pos = isinstance(t.ops[0], ast.Is)
        if isinstance(a, ast.Name) and isinstance(b, ast.Constant) and b.value is None:
            return a.id, pos, None
        if cfg is not None and isinstance(a, ast.Name) and isinstance(b, ast.Name):
            ss = sentinels(cfg)
            if b.id in ss and a.id not in ss:
                return a.id, pos, b.id
            if a.id in ss and b.id not in ss:
                return b.id, pos, a.id
    # a named constant (enum member, class constant: `outcome is _Attempt.RETRY`, `role == 'owner'`) identifies a value the
    # same way a private sentinel does: a name holding one of them is not any of the others
    if cfg is not None and isinstance(t, ast.Compare) and len(t.ops) == 1 and isinstance(t.ops[0], (ast.Is, ast.IsNot, ast.Eq, ast.NotEq)):
        a, b = t.left, t.comparators[0]
        pos = isinstance(t.ops[0], (ast.Is, ast.Eq))
        for x, y in ((a, b), (b, a)):
            if isinstance(x, ast.Name):
                k = const_key(y)
                if k is not None and (k.startswith('K:') or isinstance(t.ops[0], (ast.Eq, ast.NotEq))):
                    return x.id, pos, k
    return None


def const_key(v: Optional[ast.AST]) -> Optional[str]:
    """Key of a named constant (`Cls.MEMBER`, upper-case last component: 'K:Cls.MEMBER') or of a truthy str / int literal
    ('L:<repr>'); None for anything else."""
    if isinstance(v, ast.Attribute):
        parts = []
        e = v
        while isinstance(e, ast.Attribute):
            parts.append(e.attr)
            e = e.value
        if isinstance(e, ast.Name) and e.id not in ('self', 'cls') and parts[0].isupper() and not parts[0].startswith('__'):
            return 'K:' + '.'.join([e.id] + parts[::-1])
        return None
    if isinstance(v, ast.Constant) and isinstance(v.value, (str, int)) and not isinstance(v.value, bool) and v.value:
        return 'L:' + repr(v.value)
    return None


def sentinels(cfg: CFG) -> Set[str]:
    """Names that denote a private sentinel in this function: a single-assignment variable - of the function
    itself (outside loops), of an enclosing function or of the module - whose value is `object()`, that no nested
    function rebinds.  `x is S` is then tracked along paths like `x is None` (a sentinel is truthy and is
    neither None nor any other sentinel nor any object built elsewhere)."""
    if '_sentinels' in cfg.__dict__:
        return cfg.__dict__['_sentinels']
    out: Set[str] = set()
    cfg.__dict__['_sentinels'] = out
    cand: Set[str] = set()
    for n in cfg.nodes:
        for t in ([n.meta['test']] if n.kind in ('branch', 'assume') else [n.meta.get('value')] if n.kind == 'store_name' else []):
            if t is None:
                continue
            for x in ast.walk(t):
                if isinstance(x, ast.Compare) and len(x.ops) == 1 and isinstance(x.ops[0], (ast.Is, ast.IsNot)):
                    for y in (x.left, x.comparators[0]):
                        if isinstance(y, ast.Name):
                            cand.add(y.id)
    written = _written_by_nested(cfg)
    for nm in cand - written:
        v = _single_value(cfg, nm)
        if isinstance(v, ast.Call) and isinstance(v.func, ast.Name) and v.func.id == 'object' and not v.args and not v.keywords:
            out.add(nm)
        elif v is not None and (const_key(v) or '').startswith('K:'):
            out.add(nm)         # a name for an enum member / class constant: as good as a private object
    return out


def _single_value(cfg: CFG, name: str) -> Optional[ast.AST]:
    """Defining expression of *name* seen from the function of *cfg*, when the name is bound exactly once (by a plain
    assignment outside any loop) in the scope that binds it."""
    sc = cfg.scope
    bs = sc.binding_scope(name)
    if bs is None or name in getattr(bs, 'params', ()):
        return None
    vals: List[ast.AST] = []
    other = 0
    loops = 0

    def walk(node, in_loop):
        nonlocal other, loops
        for ch in ast.iter_child_nodes(node):
            if isinstance(ch, (ast.FunctionDef, ast.AsyncFunctionDef, ast.ClassDef)):
                if ch.name == name:
                    other += 1
                if bs.kind == 'module' or True:
                    # nested scopes: a `global`/`nonlocal` re-binding disqualifies the name
                    for x in ast.walk(ch):
                        if isinstance(x, (ast.Global, ast.Nonlocal)) and name in x.names:
                            other += 1
                continue
            if isinstance(ch, ast.Lambda):
                continue
            if isinstance(ch, (ast.Assign, ast.AnnAssign)) and getattr(ch, 'value', None) is not None:
                tg = ch.targets if isinstance(ch, ast.Assign) else [ch.target]
                if len(tg) == 1 and isinstance(tg[0], ast.Name) and tg[0].id == name:
                    vals.append(ch.value)
                    if in_loop:
                        loops += 1
                    walk(ch.value, in_loop)
                    continue
            if isinstance(ch, ast.Name) and isinstance(ch.ctx, (ast.Store, ast.Del)) and ch.id == name:
                other += 1
            elif isinstance(ch, (ast.Import, ast.ImportFrom)) and any((al.asname or al.name).split('.')[0] == name for al in ch.names):
                other += 1
            elif isinstance(ch, ast.ExceptHandler) and ch.name == name:
                other += 1
            walk(ch, in_loop or isinstance(ch, (ast.For, ast.AsyncFor, ast.While)))
    walk(bs.node, False)
    if len(vals) == 1 and not other and not loops:
        return vals[0]
    return None


def _isinstance_test(t: ast.AST) -> Optional[Tuple[str, str]]:
    """(name, class name) for `isinstance(name, Class)`."""
    if isinstance(t, ast.Call) and isinstance(t.func, ast.Name) and t.func.id == 'isinstance' and len(t.args) == 2 \
            and not t.keywords and isinstance(t.args[0], ast.Name) and isinstance(t.args[1], ast.Name):
        return t.args[0].id, t.args[1].id
    return None


def nullable_vars(cfg: CFG) -> Set[str]:
    """Locals tested for `is None` / `isinstance(x, RecordClass)` somewhere: which object a name is bound to
    cannot change without a re-assignment, so these tests are tracked along paths as well."""
    if '_nullable_vars' in cfg.__dict__:
        return cfg.__dict__['_nullable_vars']
    out: Set[str] = set()

    def scan_test(t):
        for x in ast.walk(t):
            nt = _none_test(x, cfg) or _isinstance_test(x)
            if nt:
                out.add(nt[0])
    for n in cfg.nodes:
        if n.kind in ('branch', 'assume'):
            scan_test(n.meta['test'])
        elif n.kind == 'store_name' and n.meta.get('value') is not None:
            scan_test(n.meta['value'])
    out |= set(cfg.__dict__.get('extra_tracked', ()))
    for n in cfg.nodes:
        if n.kind == 'del_name':
            out.discard(n.meta['name'])
    out -= _written_by_nested(cfg)
    cfg.__dict__['_nullable_vars'] = out
    return out


class tracking:
    """`with tracking(cfg, names):` - follow *names* by definition site for the queries inside the block only (the graph is
    shared between the checks of one process; a verdict must not depend on which check ran before)."""

    def __init__(self, cfg: CFG, names):
        self.cfg, self.names = cfg, set(names)

    def __enter__(self):
        cur = self.cfg.__dict__.setdefault('extra_tracked', set())
        self.added = self.names - cur
        if self.added:
            cur |= self.added
            for k in ('_nullable_vars', '_atom_sites'):
                self.cfg.__dict__.pop(k, None)
        return self

    def __exit__(self, *exc):
        if self.added:
            self.cfg.__dict__['extra_tracked'] -= self.added
            for k in ('_nullable_vars', '_atom_sites'):
                self.cfg.__dict__.pop(k, None)
        return False


def track_names(cfg: CFG, names) -> None:
    """Ask for *names* to be followed along paths by definition site as well (so that `leaves(..., env=)` can tell
    which of several definitions a path went through: `found, value = probe()` ... `if found: return value`)."""
    cur = cfg.__dict__.setdefault('extra_tracked', set())
    new = set(names) - cur
    if new:
        cur |= new
        for k in ('_nullable_vars', '_atom_sites'):
            cfg.__dict__.pop(k, None)


def _tracked(cfg: CFG) -> Tuple[Set[str], Set[str]]:
    return flag_vars(cfg), nullable_vars(cfg)


def _atom_sites(cfg: CFG) -> Dict[int, int]:
    """{id(test ast of a branch node): id of the tracked store whose value expression contains it}: the
    outcome of such a branch is remembered until the store, which can then evaluate compound values
    (`alive = not l.is_closed() and l.is_running()`, `owner = marker is None`) exactly."""
    if '_atom_sites' in cfg.__dict__:
        return cfg.__dict__['_atom_sites']
    flags, nulls = _tracked(cfg)
    out: Dict[int, int] = {}
    for n in cfg.nodes:
        if n.kind == 'store_name' and n.meta['name'] in flags and isinstance(n.meta.get('value'), (ast.BoolOp, ast.UnaryOp, ast.IfExp)):
            for x in ast.walk(n.meta['value']):
                out[id(x)] = n.id
    cfg.__dict__['_atom_sites'] = out
    return out


def _flag_test(test: ast.expr, flags: Set[str]) -> Optional[Tuple[str, bool]]:
    """(`flag`, polarity) if the test is `flag` or `not flag`."""
    if isinstance(test, ast.Name) and test.id in flags:
        return test.id, True
    if (isinstance(test, ast.UnaryOp) and isinstance(test.op, ast.Not)
            and isinstance(test.operand, ast.Name) and test.operand.id in flags):
        return test.operand.id, False
    return None


def _env_get(env: Env, k: str) -> Optional[bool]:
    for a, b in env:
        if a == k:
            return b
    return None


def _env_set(env: Env, k: str, v: Optional[bool]) -> Env:
    d = dict(env)
    d[k] = v
    return tuple(sorted(d.items()))


def _env_del(env: Env, pred) -> Env:
    return tuple(kv for kv in env if not pred(kv[0]))


State = Tuple[int, Env, int]


def _event_recv(cfg: CFG, node: Node, attrs) -> Optional[Tuple[str, str]]:
    """(receiver path, method) if node is / tests `<recv>.<method>()` for a tracked event."""
    a = node.meta.get('test') if node.kind in ('branch', 'assume') else node.ast
    if isinstance(a, ast.Call) and isinstance(a.func, ast.Attribute) and not a.args:
        rp = cfg.res.path(a.func.value)
        if rp in attrs:
            return rp, a.func.attr
    return None


# ---- tokens ---------------------------------------------------------------------------------------
#   ('c', bool)        a constant truth value
#   ('none',)          the constant None
#   ('obj', node id[, class])   a freshly built object (tuple display, record / class constructor): not None
#   ('v', node id)     the unknown value stored at that node
#   ('p', name)        the unknown value of a parameter
#   ('n', tok)         logical negation of tok
#   ('isnone', tok)    the truth value of `tok is None`
# decisions taken on the way are kept in the environment under '#<token>' (truthiness) and '?<token>' (is None)

def _tok_of(cfg: CFG, env: Env, name: str):
    tok = _env_get(env, name)
    if tok is None and name in cfg.scope.params:
        tok = ('p', name)
    return tok


def _decide(env: Env, tok, want: bool) -> Optional[Env]:
    """Environment after learning that *tok* is truthy (want) / falsy; None if that contradicts the path."""
    base, neg = _strip_neg(tok)
    want = want ^ neg
    if base[0] == 'c':
        return env if base[1] == want else None
    if base[0] == 'none':
        if len(base) > 1:
            return env if want else None                  # a sentinel object() is truthy
        return env if not want else None
    if base[0] == 'obj' and len(base) > 2 and base[2] is not None:
        return env if want else None                  # a non-empty tuple / record is truthy
    if base[0] == 'isnone':
        inner = base[1]
        sent = base[2] if len(base) > 2 else None      # `tok is None` / `tok is <sentinel>`
        ib, ineg = _strip_neg(inner)
        if ineg or ib[0] == 'c':
            return env if not want else None           # a boolean is never None / a sentinel
        if ib[0] == 'none':
            same = (ib[1] if len(ib) > 1 else None) == sent
            return env if want == same else None
        if ib[0] == 'obj':
            return env if not want else None
        key = _idkey(ib, sent)
        prior = _env_get(env, key)
        if prior is not None:
            return env if prior == want else None
        env = _env_set(env, key, want)
        if want:
            # None is falsy, a sentinel is truthy
            tk = '#' + repr(ib)
            pt = _env_get(env, tk)
            if pt is not None and pt != (sent is not None):
                return None
            env = _env_set(env, tk, sent is not None)
            if sent is not None:
                # ... and is not None
                nk = '?' + repr(ib)
                if _env_get(env, nk) is True:
                    return None
                env = _env_set(env, nk, False)
        return env
    key = '#' + repr(base)
    prior = _env_get(env, key)
    if prior is not None:
        return env if prior == want else None
    env = _env_set(env, key, want)
    if want and base[0] in ('v', 'p'):
        nk = '?' + repr(base)
        pn = _env_get(env, nk)
        if pn is True:
            return None
        env = _env_set(env, nk, False)
    return env


def _idkey(ib, sent: Optional[str]) -> str:
    """Environment key of the decision `ib is None` ('?...') / `ib is <sentinel>` ('$<sentinel>|...')."""
    return ('?' + repr(ib)) if sent is None else ('$' + sent + '|' + repr(ib))


def _isnone(tok, sent: Optional[str]):
    return ('isnone', tok) if sent is None else ('isnone', tok, sent)


def _known(env: Env, tok) -> Optional[bool]:
    """Truth value of *tok* if the path already determines it."""
    base, neg = _strip_neg(tok)
    if base[0] == 'c':
        return base[1] ^ neg
    if base[0] == 'none':
        return (len(base) > 1) ^ neg
    if base[0] == 'obj' and len(base) > 2 and base[2] is not None:
        return True ^ neg
    if base[0] == 'isnone':
        sent = base[2] if len(base) > 2 else None
        ib, ineg = _strip_neg(base[1])
        if ineg or ib[0] == 'c' or ib[0] == 'obj':
            return False ^ neg
        if ib[0] == 'none':
            return ((ib[1] if len(ib) > 1 else None) == sent) ^ neg
        v = _env_get(env, _idkey(ib, sent))
        return None if v is None else v ^ neg
    v = _env_get(env, '#' + repr(base))
    return None if v is None else v ^ neg


def nonnull_expr(cfg: CFG, v: ast.AST) -> bool:
    """Is the value of *v* never None, whatever its free names hold?  (calls known to return objects, displays,
    `x or make()`, `make() if x is None else x`)"""
    from .model import NON_NONE_CALLS
    if isinstance(v, ast.Call):
        if isinstance(v.func, ast.Attribute) and v.func.attr in ('create_future', 'create_task', 'run_in_executor', 'submit'):
            return True
        return cfg.res.path(v.func) in NON_NONE_CALLS
    if isinstance(v, ast.Subscript) and isinstance(v.ctx, ast.Load) and cfg.res.path(v.value) in cfg.__dict__.get('nonnull_tables', ()):
        return True      # an element of a mapping that only ever receives non-None values (declared by the rule module)
    if isinstance(v, (ast.Tuple, ast.List, ast.Dict, ast.Set, ast.JoinedStr, ast.Lambda, ast.ListComp, ast.DictComp, ast.SetComp)):
        return True
    if isinstance(v, ast.Constant):
        return v.value is not None
    if isinstance(v, ast.BoolOp) and isinstance(v.op, ast.Or):
        return nonnull_expr(cfg, v.values[-1])      # earlier operands are returned only when truthy, i.e. not None
    if isinstance(v, ast.IfExp):
        nt_ = _none_test(v.test)
        if nt_ is not None and nt_[2] is None:
            keep = v.body if not nt_[1] else v.orelse
            other = v.orelse if not nt_[1] else v.body
            if isinstance(keep, ast.Name) and keep.id == nt_[0] and nonnull_expr(cfg, other):
                return True
        return nonnull_expr(cfg, v.body) and nonnull_expr(cfg, v.orelse)
    return False


def _value_token(cfg: CFG, env: Env, node: Node, v: Optional[ast.AST], flags: Set[str], nulls: Set[str]):
    """Token of the value expression *v* stored at *node*."""
    fresh = ('v', node.id)
    if v is None:
        return fresh
    if isinstance(v, ast.Constant):
        if v.value is None:
            return ('none',)
        if const_key(v) is not None:
            return ('none', const_key(v))       # a truthy literal that equality tests can tell apart from other literals
        if isinstance(v.value, (bool, int, float, str, bytes)):
            return ('c', bool(v.value))
        return fresh
    if const_key(v) is not None:
        return ('none', const_key(v))
    if isinstance(v, ast.Name):
        if v.id in flags or v.id in nulls:
            return _tok_of(cfg, env, v.id) or fresh
        if v.id in sentinels(cfg):
            return ('none', v.id)
        return fresh
    if isinstance(v, ast.UnaryOp) and isinstance(v.op, ast.Not):
        k = _eval_bool(cfg, env, v, flags, nulls)
        if k is not None:
            return ('c', k)
        if isinstance(v.operand, ast.Name) and (v.operand.id in flags):
            src = _tok_of(cfg, env, v.operand.id) or fresh
            return ('n', src)
        nt = _none_test(v.operand, cfg)
        if nt and nt[0] in nulls:
            t = _tok_of(cfg, env, nt[0])
            if t is not None:
                tk = _isnone(t, nt[2])
                return ('n', tk) if nt[1] else tk
        return ('n', fresh)
    if isinstance(v, (ast.BoolOp, ast.IfExp)):
        k = _eval_bool(cfg, env, v, flags, nulls)
        if k is not None:
            return ('c', k)
        if nonnull_expr(cfg, v):
            return ('obj', node.id, None)
        return fresh
    nt = _none_test(v, cfg)
    if nt and nt[0] in nulls:
        t = _tok_of(cfg, env, nt[0])
        if t is not None:
            tk = _isnone(t, nt[2])
            kn = _known(env, tk)
            if kn is not None:
                return ('c', kn if nt[1] else not kn)
            return tk if nt[1] else ('n', tk)
        return fresh
    it = _isinstance_test(v)
    if it and it[0] in nulls:
        t = _tok_of(cfg, env, it[0])
        if t is not None:
            b, ng = _strip_neg(t)
            if not ng and b[0] == 'obj' and len(b) > 2 and b[2] is not None:
                return ('c', b[2] == it[1])
            if not ng and b[0] == 'none':
                return ('c', False)
        return fresh
    if isinstance(v, ast.Tuple):
        return ('obj', node.id, getattr(v, '_nt', 'tuple')) if v.elts else ('c', False)
    if isinstance(v, ast.Subscript) and isinstance(v.value, ast.Name) and v.value.id in nulls \
            and isinstance(v.slice, ast.Constant) and isinstance(v.slice.value, int):
        # element of a record built on this path: `a, b, flag = rec` / `flag = rec[2]`
        t = _tok_of(cfg, env, v.value.id)
        if t is not None:
            b, ng = _strip_neg(t)
            if not ng and b[0] == 'obj':
                src = cfg.nodes[b[1]].meta.get('value')
                if isinstance(src, ast.Tuple) and -len(src.elts) <= v.slice.value < len(src.elts):
                    el = src.elts[v.slice.value]
                    if isinstance(el, ast.Constant):
                        return _value_token(cfg, env, node, el, flags, nulls)
        return fresh
    if isinstance(v, (ast.List, ast.Dict, ast.Set, ast.ListComp, ast.DictComp, ast.SetComp, ast.GeneratorExp, ast.Lambda, ast.JoinedStr)):
        return ('obj', node.id, None)
    if isinstance(v, (ast.Call, ast.Subscript)) and nonnull_expr(cfg, v):
        return ('obj', node.id, None)
    return fresh


def _eval_bool(cfg: CFG, env: Env, v: ast.AST, flags: Set[str], nulls: Set[str]) -> Optional[bool]:
    """Truth value of a compound value expression from the outcomes of its atoms recorded on the path."""
    if isinstance(v, ast.Constant):
        return bool(v.value)
    rec = _env_get(env, '%' + str(id(v)))
    if rec is not None:
        return rec
    if isinstance(v, ast.UnaryOp) and isinstance(v.op, ast.Not):
        k = _eval_bool(cfg, env, v.operand, flags, nulls)
        return None if k is None else not k
    if isinstance(v, ast.BoolOp):
        is_and = isinstance(v.op, ast.And)
        for x in v.values:
            k = _eval_bool(cfg, env, x, flags, nulls)
            if k is None:
                return None
            if k != is_and:
                return k      # short-circuit: later operands were not evaluated
        return is_and
    if isinstance(v, ast.IfExp):
        t = _eval_bool(cfg, env, v.test, flags, nulls)
        if t is None:
            return None
        return _eval_bool(cfg, env, v.body if t else v.orelse, flags, nulls)
    if isinstance(v, ast.Name) and (v.id in flags):
        t = _tok_of(cfg, env, v.id)
        return _known(env, t) if t is not None else None
    nt = _none_test(v, cfg)
    if nt and nt[0] in nulls:
        t = _tok_of(cfg, env, nt[0])
        if t is not None:
            kn = _known(env, _isnone(t, nt[2]))
            if kn is not None:
                return kn if nt[1] else not kn
    return None


def _step(cfg: CFG, flags: Set[str], node: Node, env: Env, e: Edge) -> Optional[Env]:
    """Environment after taking edge *e* out of *node*, or None if infeasible."""
    ev = cfg.__dict__.get('event_flags')
    if ev:
        # loop-owned asyncio.Event objects: state known between an explicit
        # set()/clear() and the next suspension point (atomic section)
        if node.suspends:
            for k in ev:
                if _env_get(env, '@' + k) is not None:
                    env = _env_set(env, '@' + k, None)
        if node.kind == 'call' and e.label != 'exc':
            rm = _event_recv(cfg, node, ev)
            if rm and rm[1] in ('set', 'clear'):
                env = _env_set(env, '@' + rm[0], rm[1] == 'set')
        if node.kind in ('branch', 'assume') and e.label in ('true', 'false'):
            rm = _event_recv(cfg, node, ev)
            if rm and rm[1] == 'is_set':
                val = _env_get(env, '@' + rm[0])
                if val is not None and val != (e.label == 'true'):
                    return None
    if flags is None:
        return env
    nulls = nullable_vars(cfg)
    if not flags and not nulls:
        return env
    if node.kind == 'unpack' and e.label == 'exc':
        # unpacking a record built on this path with the right number of fields cannot fail
        v = node.meta.get('value')
        if isinstance(v, ast.Name) and v.id in nulls:
            t = _tok_of(cfg, env, v.id)
            if t is not None:
                b, ng = _strip_neg(t)
                if not ng and b[0] == 'obj':
                    src = cfg.nodes[b[1]].meta.get('value')
                    if isinstance(src, ast.Tuple) and len(src.elts) == node.meta.get('arity') \
                            and not any(isinstance(x, ast.Starred) for x in src.elts):
                        return None
    # locals: a value tested twice without being re-assigned gives the same answer;
    # copies (`a = b`) and negations (`a = not b`) share the token of their source
    if node.kind in ('branch', 'assume') and e.label in ('true', 'false'):
        t = node.meta['test']
        taken = (e.label == 'true')
        sites = _atom_sites(cfg)
        tok = None
        if isinstance(t, ast.Name) and t.id in flags:
            tok = _tok_of(cfg, env, t.id)
        else:
            nt = _none_test(t, cfg)
            if nt and nt[0] in nulls:
                base = _tok_of(cfg, env, nt[0])
                if base is not None:
                    tok = _isnone(base, nt[2]) if nt[1] else ('n', _isnone(base, nt[2]))
            else:
                it = _isinstance_test(t)
                if it and it[0] in nulls:
                    base = _tok_of(cfg, env, it[0])
                    if base is not None:
                        b, ng = _strip_neg(base)
                        if not ng and b[0] == 'obj' and len(b) > 2 and b[2] is not None:
                            tok = ('c', b[2] == it[1])
                        elif not ng and b[0] == 'none':
                            tok = ('c', False)
        if tok is not None:
            env2 = _decide(env, tok, taken)
            if env2 is None:
                return None
            env = env2
        if id(t) in sites:
            env = _env_set(env, '%' + str(id(t)), taken)
    if node.kind == 'store_name' and (node.meta['name'] in flags or node.meta['name'] in nulls) and e.label not in ('exc',):
        v = node.meta.get('value')
        stmt = node.meta.get('stmt')
        name = node.meta['name']
        if isinstance(stmt, ast.AugAssign):
            tok = ('v', node.id)
        elif node.meta.get('inlined_param') and isinstance(v, ast.Name) and v.id == name:
            tok = _env_get(env, name)
            if tok is None:
                return env
        else:
            tok = _value_token(cfg, env, node, v, flags, nulls)
        base, _ = _strip_neg(tok)
        while base[0] == 'isnone':
            base, _ = _strip_neg(base[1])
        if base[:2] == ('v', node.id) or base[:2] == ('obj', node.id):
            # a fresh value: forget what an earlier iteration decided about it
            r0 = repr(('v', node.id))
            r1 = repr(base)
            env = _env_del(env, lambda k: isinstance(k, str) and ((k[:1] in '#?' and (k[1:] == r0 or k[1:] == r1))
                                                                  or (k[:1] == '$' and k.split('|', 1)[-1] in (r0, r1))))
        if isinstance(v, (ast.BoolOp, ast.UnaryOp, ast.IfExp)):
            inner = {str(id(x)) for x in ast.walk(v)}
            env = _env_del(env, lambda k: isinstance(k, str) and k[:1] == '%' and k[1:] in inner)
        env = _env_set(env, name, tok)
    return env


def _strip_neg(tok):
    neg = False
    while tok[0] == 'n':
        neg = not neg
        tok = tok[1]
    return tok, neg


def decisions(env: Env) -> Dict[tuple, bool]:
    """{token: truth} decided on the way (tokens ('v', node id) / ('p', name))."""
    out = {}
    for k, v in env:
        if isinstance(k, str) and k.startswith('#'):
            out[eval(k[1:])] = v
    return out


def none_decisions(env: Env) -> Dict[tuple, bool]:
    """{token: is-None} decided on the way."""
    out = {}
    for k, v in env:
        if isinstance(k, str) and k.startswith('?'):
            out[eval(k[1:])] = v
    return out


def walk_env(cfg: CFG, path: List[Edge], init_env: Env = ()) -> Env:
    """Environment (boolean-local tokens and decisions) after walking *path*."""
    flags = flag_vars(cfg)
    env = init_env
    for e in path:
        env2 = _step(cfg, flags, e.src, env, e)
        if env2 is None:
            return env
        env = env2
    return env


def search(cfg: CFG, sources: Iterable[Node], targets: Optional[Set[int]] = None,
           avoid: Optional[Set[int]] = None, edge_ok: Optional[EdgeFilter] = None,
           flag_sensitive: bool = True, start_edges: Optional[Iterable[Edge]] = None,
           init_env: Env = ()) -> Tuple[Set[int], Optional[List[Edge]]]:
    """BFS from *sources* (or from the given *start_edges*).  Returns the set of
    reached node ids and, if *targets* given and one is reached, the shortest
    path to it as a list of edges.  Nodes in *avoid* are not entered (sources
    themselves are exempt)."""
    flags = flag_vars(cfg) if flag_sensitive else None
    avoid = avoid or set()
    seen: Set[State] = set()
    prev: Dict[State, Tuple[Optional[State], Optional[Edge]]] = {}
    dq: deque = deque()
    reached: Set[int] = set()

    def push(st: State, frm: Optional[State], e: Optional[Edge]) -> None:
        if st in seen:
            return
        seen.add(st)
        prev[st] = (frm, e)
        dq.append(st)

    if start_edges is not None:
        for e in start_edges:
            if edge_ok is not None and not edge_ok(e):
                continue
            env = _step(cfg, flags, e.src, init_env, e)
            if env is None:
                continue
            if e.dst.id in avoid:
                continue
            push((e.dst.id, env, 1), None, e)
    else:
        for s in sources:
            push((s.id, init_env, 0), None, None)

    def mkpath(st: State) -> List[Edge]:
        out: List[Edge] = []
        cur: Optional[State] = st
        while cur is not None:
            frm, e = prev[cur]
            if e is not None:
                out.append(e)
            cur = frm
        out.reverse()
        return out

    first = start_edges is None
    while dq:
        st = dq.popleft()
        nid, env, started = st
        if started:
            reached.add(nid)
            if targets is not None and nid in targets:
                return reached, mkpath(st)
        node = cfg.nodes[nid]
        for e in cfg.succ[nid]:
            if edge_ok is not None and not edge_ok(e):
                continue
            if e.dst.id in avoid:
                continue
            env2 = _step(cfg, flags, node, env, e)
            if env2 is None:
                continue
            push((e.dst.id, env2, 1), st, e)
    return reached, None


def envs_at(cfg: CFG, node: Node, limit: int = 64) -> List[Env]:
    """Distinct path environments (boolean-local decisions, event flags) with which *node* can be
    reached from the entry; used as `init_env` of queries that start in the middle of a function."""
    flags = flag_vars(cfg)
    seen: Set[Tuple[int, Env]] = set()
    out: List[Env] = []
    dq: deque = deque([(cfg.entry.id, ())])
    seen.add((cfg.entry.id, ()))
    while dq:
        nid, env = dq.popleft()
        if nid == node.id:
            if env not in out:
                out.append(env)
                if len(out) >= limit:
                    break
            continue
        n = cfg.nodes[nid]
        for e in cfg.succ[nid]:
            env2 = _step(cfg, flags, n, env, e)
            if env2 is None:
                continue
            st = (e.dst.id, env2)
            if st not in seen:
                seen.add(st)
                dq.append(st)
    return out or [()]


def nonnull_at(cfg: CFG, node: Node, name: str) -> bool:
    """Is local / parameter *name* known not to be None on every path reaching *node*?"""
    envs = envs_at(cfg, node)
    if not envs:
        return False
    if name not in nullable_vars(cfg) and name not in flag_vars(cfg):
        # never tested: decided by what it can have been assigned
        from .dataflow import rdefs
        from .model import NON_NONE_CALLS
        ds = rdefs(cfg).reaching(node, name)
        if not ds:
            return False
        for d in ds:
            if d is None:
                return False
            v = d.meta.get('value')
            ok = v is not None and nonnull_expr(cfg, v)
            if not ok:
                return False
        return True
    for env in envs:
        tok = _tok_of(cfg, env, name)
        if tok is None:
            return False
        if _known(env, ('isnone', tok)) is not False:
            return False
    return True


def reach(cfg: CFG, sources: Iterable[Node], avoid: Optional[Iterable[Node]] = None,
          edge_ok: Optional[EdgeFilter] = None, flag_sensitive: bool = True,
          start_edges: Optional[Iterable[Edge]] = None) -> Set[int]:
    av = {n.id for n in avoid} if avoid else set()
    r, _ = search(cfg, sources, None, av, edge_ok, flag_sensitive, start_edges)
    return r


def find_path(cfg: CFG, sources: Iterable[Node], targets: Iterable[Node],
              avoid: Optional[Iterable[Node]] = None, edge_ok: Optional[EdgeFilter] = None,
              flag_sensitive: bool = True,
              start_edges: Optional[Iterable[Edge]] = None,
              init_envs: Optional[List[Env]] = None) -> Optional[List[Edge]]:
    """Shortest path from any source to any target not entering *avoid*."""
    av = {n.id for n in avoid} if avoid else set()
    tg = {n.id for n in targets}
    sources = list(sources)
    start_edges = list(start_edges) if start_edges is not None else None
    if init_envs is not None or not flag_sensitive:
        for env in (init_envs or [()]):
            _, p = search(cfg, sources, tg, av - tg, edge_ok, flag_sensitive, start_edges, init_env=env)
            if p is not None:
                return p
        return None
    # a query that starts in the middle of the function inherits what the paths leading there decided
    if start_edges is not None:
        by_src: Dict[int, List[Edge]] = {}
        for e in start_edges:
            by_src.setdefault(e.src.id, []).append(e)
        for sid, es in by_src.items():
            for env in _envs_cached(cfg, cfg.nodes[sid]):
                _, p = search(cfg, [], tg, av - tg, edge_ok, flag_sensitive, es, init_env=env)
                if p is not None:
                    return p
        return None
    for s_ in sources:
        envs = [()] if s_ is cfg.entry else _envs_cached(cfg, s_)
        for env in envs:
            _, p = search(cfg, [s_], tg, av - tg, edge_ok, flag_sensitive, None, init_env=env)
            if p is not None:
                return p
    return None


def _envs_cached(cfg: CFG, node: Node) -> List[Env]:
    cache = cfg.__dict__.setdefault('_envs_at', {})
    if node.id not in cache:
        cache[node.id] = envs_at(cfg, node)
    return cache[node.id]


def must_pass(cfg: CFG, sources: Iterable[Node], targets: Iterable[Node],
              via: Iterable[Node], edge_ok: Optional[EdgeFilter] = None,
              start_edges: Optional[Iterable[Edge]] = None,
              init_envs: Optional[List[Env]] = None) -> Optional[List[Edge]]:
    """None if every path sources->targets passes a `via` node; otherwise the
    shortest witness path that avoids all `via` nodes."""
    via = list(via)
    tg = [t for t in targets if t not in via]
    return find_path(cfg, sources, tg, avoid=via, edge_ok=edge_ok, start_edges=start_edges, init_envs=init_envs)


def render(cfg: CFG, path: Optional[List[Edge]]) -> List[str]:
    if not path:
        return []
    out = []
    first = path[0].src
    out.append(f'{cfg.unit.rel}:{first.line} [{first.kind}] {first.text()}')
    for e in path:
        lab = e.label + (':' + ','.join(sorted(e.classes)) if e.classes else '')
        out.append(f'  --{lab}--> {cfg.unit.rel}:{e.dst.line} [{e.dst.kind}] {e.dst.text()}')
    return out


def no_suspension(cfg: CFG, sources: Iterable[Node], targets: Iterable[Node],
                  edge_ok: Optional[EdgeFilter] = None,
                  start_edges: Optional[Iterable[Edge]] = None) -> Optional[List[Edge]]:
    """None if no path sources->targets crosses a suspension point strictly
    between them; else a witness path through a suspension point.

    Implemented as: is there a path source -> S -> target for a suspending S?"""
    targets = list(targets)
    tg = {t.id for t in targets}
    susp = [n for n in cfg.nodes if n.suspends and n.id not in tg]
    srcs = list(sources)
    src_ids = {s.id for s in srcs}
    for s in susp:
        if s.id in src_ids:
            continue
        p1 = find_path(cfg, srcs, [s], avoid=targets, edge_ok=edge_ok, start_edges=start_edges)
        if p1 is None:
            continue
        # continue from s with the flag env unknown (conservative)
        p2 = find_path(cfg, [s], targets, edge_ok=edge_ok)
        if p2 is not None:
            return p1 + p2
    return None


# ---------------------------------------------------------------------------
# dominators
# ---------------------------------------------------------------------------

def dominators(cfg: CFG, edge_ok: Optional[EdgeFilter] = None) -> Dict[int, Set[int]]:
    nodes = [n.id for n in cfg.nodes]
    entry = cfg.entry.id
    reachable = reach(cfg, [cfg.entry], edge_ok=edge_ok, flag_sensitive=False) | {entry}
    dom: Dict[int, Set[int]] = {n: set(reachable) for n in reachable}
    dom[entry] = {entry}
    changed = True
    order = [n for n in nodes if n in reachable]
    while changed:
        changed = False
        for n in order:
            if n == entry:
                continue
            preds = [e.src.id for e in cfg.pred[n]
                     if e.src.id in reachable and (edge_ok is None or edge_ok(e))]
            if not preds:
                continue
            new = set.intersection(*(dom[p] for p in preds)) | {n}
            if new != dom[n]:
                dom[n] = new
                changed = True
    return dom


# ---------------------------------------------------------------------------
# held locks
# ---------------------------------------------------------------------------

def lexical_withs(cfg: CFG, n: Node) -> List[str]:
    """Resolved access paths of the context managers lexically enclosing n."""
    out = []
    for item in n.withs:
        p = cfg.res.path(item.context_expr)
        out.append(p if p is not None else ast.unparse(item.context_expr))
    return out


def held_locks(cfg: CFG, lock_paths: Iterable[str]) -> Dict[int, FrozenSet[str]]:
    """Forward must-analysis: for every node, the subset of *lock_paths* surely
    held when the node executes.  Sources of 'held': lexical `with L:` and
    `L.acquire()` (normal completion, result not tested => must be the
    unconditional blocking form) ... `L.release()`.
    """
    locks = set(lock_paths)
    gen: Dict[int, Set[str]] = {}
    kill: Dict[int, Set[str]] = {}
    awaited_calls = {id(n.ast.value): n for n in cfg.nodes if n.kind == 'await' and isinstance(n.ast.value, ast.Call)}
    for n in cfg.nodes:
        if n.kind == 'call':
            f = n.ast.func  # type: ignore[union-attr]
            if isinstance(f, ast.Attribute):
                rp = cfg.res.path(f.value)
                if rp in locks:
                    if f.attr == 'acquire' and not n.ast.args and not n.ast.keywords:  # type: ignore[union-attr]
                        # `await sem.acquire()`: held once the await completed normally
                        holder = awaited_calls.get(id(n.ast), n)
                        gen.setdefault(holder.id, set()).add(rp)
                    elif f.attr == 'release':
                        kill.setdefault(n.id, set()).add(rp)
    top = frozenset(locks)
    out_: Dict[int, FrozenSet[str]] = {n.id: top for n in cfg.nodes}
    in_: Dict[int, FrozenSet[str]] = {n.id: top for n in cfg.nodes}
    in_[cfg.entry.id] = frozenset()
    out_[cfg.entry.id] = frozenset()
    work = deque(n.id for n in cfg.nodes)
    while work:
        nid = work.popleft()
        node = cfg.nodes[nid]
        if nid != cfg.entry.id:
            preds = cfg.pred[nid]
            if preds:
                acc: Optional[FrozenSet[str]] = None
                for e in preds:
                    src_out = out_[e.src.id]
                    # an acquire that raises did not acquire
                    if e.label == 'exc' and e.src.id in gen:
                        src_out = src_out - frozenset(gen[e.src.id])
                    acc = src_out if acc is None else (acc & src_out)
                new_in = acc or frozenset()
            else:
                new_in = frozenset()
            in_[nid] = new_in
        new_out = (in_[nid] | frozenset(gen.get(nid, ()))) - frozenset(kill.get(nid, ()))
        if new_out != out_[nid]:
            out_[nid] = new_out
            for e in cfg.succ[nid]:
                work.append(e.dst.id)
    result: Dict[int, FrozenSet[str]] = {}
    for n in cfg.nodes:
        lex = {p for p in lexical_withs(cfg, n) if p in locks}
        # a release()/acquire() node itself executes with in-state
        result[n.id] = frozenset(in_[n.id] | lex)
    return result
