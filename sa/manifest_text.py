"""Per-property texts for MANIFEST.json (level, trusted base, technique)."""
COMMON_NOTE = ('Structural clauses only (DESIGN 4 / 7). Trusted: CPython semantics of the constructs '
               'analysed, the standard library (asyncio, threading, fcntl) and the frozen raise-set table '
               'of DESIGN 2.2 printed in the evidence. Not decided: ')
TECH = 'static analysis: ast CFG with exception/cancel edges + '

TEXT = {
 'C01': {'ref': '4.A C01', 'technique': TECH + 'lock-region dataflow, must-pass-through, truth table of the take-over guard',
         'level': 'Every path of the wrapper coroutine\'s CFG is checked against eight obligations (lock discipline of the in-flight table, '
                  'locked double-check, look-up before mark, take-over only of dead loops, call only after mark, publish before unmark, '
                  'owner-only unmark, returned values). These are the premises of a 10-line hand argument for single-flight; breaking any '
                  'one of them breaks the property under some schedule, so a path-universal static verdict covers every interleaving '
                  'that can only choose among those paths.',
         'note': COMMON_NOTE + 'soundness of the hand argument itself; behaviour of foreign MutableMappings.'},
 'C05': {'ref': '4.A C05', 'technique': TECH + 'must-pass-through on all exits, symbolic provenance of the awaited object',
         'level': 'Wake and unmark are shown to lie on every exit of the computing caller including exception and cancellation edges at every '
                  'await; the awaited object of every waiter is reconstructed symbolically per path and must be the bridged wait on the '
                  'event\'s own loop, bounded by a literal timeout <= 60 whose expiry, like a bridge failure, leads back to the retry head; '
                  'dead marker loops always lead to take-over.',
         'note': COMMON_NOTE + '"promptly"/scheduling latency, fairness; asyncio internals.'},
 'C06': {'ref': '4.A C06', 'technique': TECH + 'reachability from exception edges, control dependence of re-raise, effect sets',
         'level': 'No exception/cancel edge of the wrapped call reaches the cache store; failures leave only by raising; marker removal is '
                  'owner-only; cancel() targets only the local waiter; the re-raise of a caught CancelledError must be control-dependent on '
                  'the local waiter being pending (today violated: known finding F3).',
         'note': COMMON_NOTE + 'delay bounds; asyncio.shield semantics.'},
 'C14': {'ref': '4.A C14', 'technique': 'static analysis: value provenance of the key expression, accepted/known-bad encoding tables, effect set',
         'level': 'The key expression is reconstructed with aliases substituted and classified against tables of complete/incomplete encodings; '
                  'all table/cache subscripts use that one variable; arguments are forwarded unchanged; the mapping is selected by a None test '
                  'and is the wrapper\'s only store.',
         'note': COMMON_NOTE + '== / hash of user values, third-party mapping behaviour.'},
}
