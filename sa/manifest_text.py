"""Per-property texts for MANIFEST.json (level, trusted base, technique)."""
COMMON_NOTE = ('Structural clauses only (DESIGN 4 / 7); every check also carries the generic obligation U1 (no read of a possibly-unbound local in the anchored functions). Trusted: CPython semantics of the constructs '
               'analysed, the standard library (asyncio, threading, fcntl) and the frozen raise-set table '
               'of DESIGN 2.2 printed in the evidence. Not decided: ')
TECH = 'static analysis: ast CFG with exception/cancel edges + '

TEXT = {
 'C01': {'ref': '4.A C01', 'technique': TECH + 'lock-region dataflow, must-pass-through, truth table of the take-over guard',
         'level': 'Every path of the wrapper coroutine\'s CFG is checked against eight obligations (lock discipline of the in-flight table, '
                  'locked double-check, look-up before mark, take-over only of dead loops, call only after mark, publish before unmark, '
                  'owner-only unmark, returned values). These are the premises of a 10-line hand argument for single-flight; breaking any '
                  'one of them breaks the property under some schedule, so a path-universal static verdict covers every interleaving '
                  'that can only choose among those paths.',
         'note': COMMON_NOTE + 'soundness of the hand argument itself; behaviour of foreign MutableMappings.'},
 'C05': {'ref': '4.A C05', 'technique': TECH + 'must-pass-through on all exits, symbolic provenance of the awaited object',
         'level': 'Wake and unmark are shown to lie on every exit of the computing caller including exception and cancellation edges at every '
                  'await; the awaited object of every waiter is reconstructed symbolically per path and must be the bridged wait on the '
                  'event\'s own loop, bounded by a literal timeout <= 60 whose expiry, like a bridge failure, leads back to the retry head; '
                  'dead marker loops always lead to take-over; the Event set at the wake-up is, by creation site along the path, the very Event stored in the marker of this activation, and no event is set before the activation published its own marker.',
         'note': COMMON_NOTE + '"promptly"/scheduling latency, fairness; asyncio internals.'},
 'C06': {'ref': '4.A C06', 'technique': TECH + 'reachability from exception edges, control dependence of re-raise, effect sets',
         'level': 'No exception/cancel edge of the wrapped call reaches the cache store; failures leave only by raising; marker removal is '
                  'owner-only; cancel() targets only the local waiter; the re-raise of a caught CancelledError must be control-dependent on '
                  'the local waiter being pending (today violated: known finding F3), an uncaught one is the same defect; a miss of the cache mapping never leaves the wrapper.'
                  ' The wrapper raises nothing of its own: a raise statement whose exception can leave the wrapper must be a re-raise of what was caught.',
         'note': COMMON_NOTE + 'delay bounds; asyncio.shield semantics.'},
 'C14': {'ref': '4.A C14', 'technique': 'static analysis: value provenance of the key expression, accepted/known-bad encoding tables, effect set',
         'level': 'The key expression is reconstructed with aliases substituted and classified against tables of complete/incomplete encodings; '
                  'all table/cache subscripts use that one variable; arguments are forwarded unchanged; the mapping is selected by a None test '
                  'and is the wrapper\'s only store.'
                  ' Whenever a function is given, every return of the decorator hands back the caching wrapper built over the selected mapping.',
         'note': COMMON_NOTE + '== / hash of user values, third-party mapping behaviour.'},
 'C02': {'ref': '4.B C02', 'technique': 'static analysis: affine abstract interpretation of counter/lock depth over all CFG paths, who-may-write rule, flag folding over sibling overrides, call-site result-use rule',
         'level': 'acquire() is interpreted abstractly on every path: success is reported only with the thread lock held one level deeper and the descriptor set; '
                  'the descriptor attribute has exactly three writers and is set only after a successful OS lock on a descriptor opened in the same activation; '
                  'every concrete _lock is folded over block in {True, False} and must be exclusive flock / msvcrt.locking; release order and the use of acquire()\'s result at every call site are checked; release() never gives back more thread-lock levels than are held; only the two OS helpers close a descriptor; the with-body of `with lock:` / acquire_ctx() is entered only through the success edge of acquire().'
                  ' Every normally returning path of a concrete _lock ends in a locking call that itself returned (no swallowed refusal, no retry loop that runs out - constant ranges are folded in their last iteration), and no POSIX record lock stands in for flock.',
         'note': COMMON_NOTE + 'the kernel\'s flock semantics (trusted), NFS emulation, free-running multi-process contention.'},
 'C12': {'ref': '4.B C12', 'technique': 'static analysis: path-sensitive affine interpretation (a*c+b over the entry depth c) with case splits, sign-domain evaluation of the argument normalisation, path rules under an OSError fault model',
         'level': 'For every path through acquire/release (helpers inlined, loops checked for a fixpoint, range(<linear>) loops multiplied out) the exit state must satisfy '
                  'counter - depth = 0 with the method-specific deltas; the OS release is reached only for c == 1 or force; unheld release has no effect node; '
                  'descriptor open/close pairing follows OSError edges; the 8-row normalisation table of (blocking, timeout) is evaluated abstractly; '
                  'the same table is folded for 42 concrete samples; acquire_ctx forwards its arguments slot by slot; non-blocking and timed shapes of the poll loop are path rules; the outermost and the forced release give the lock up entirely; __exit__ / acquire_ctx release on every exit; the counter starts at 0.',
         'note': COMMON_NOTE + 'elapsed time; release by a non-owner thread (outside the contract). Precondition assumed: counter == depth held by the caller.'},
 'C13': {'ref': '4.B C13', 'technique': 'static analysis: effect rule (forbidden-call scan with positive control), constant folding of the open mode, primitive classification',
         'level': 'A crash-point quantifier is covered by a no-persistent-state argument: filelock.py contains no unlink/rename/pid-file/exists/atexit/signal machinery '
                  '(positive control must match on every run), the open mode has O_CREAT and not O_EXCL, and exclusion is established only by flock / msvcrt.locking on a process-owned descriptor.',
         'note': COMMON_NOTE + 'that the kernel releases the lock promptly on SIGKILL (trusted).'},
 'C04': {'ref': '4.D C04', 'technique': TECH + 'value provenance of the completed future, sweep typestate (pending -> swept) on all paths',
         'level': 'In the batch task every completion inside the result loop must target the future registered under the yielded key of the same iteration; '
                  'the isinstance(result, Exception) branch decides the completion kind; every path entry -> exit (normal and exc:Exception edges) '
                  'passes the fan-out sweep or the missing-key sweep (or leaves the dict empty); answered futures leave the dict; callers await their key\'s future; '
                  'the dispatcher spawns and never awaits a batch; nothing before the protected region can fail and no handler reads a possibly-unbound local; the dispatcher never re-raises a task outcome; the shared futures live in a strong dict owned by the instance.'
                  ' A future taken out of the per-batch dict is completed in the same iteration unless its own done()/cancelled() excuses it; the value the batch function returns is only iterated by the delivery loop, result by result (no finaliser, no buffering).',
         'note': COMMON_NOTE + 'scheduling of the dispatcher task; outcomes for keys yielded twice / unknown keys (surface as a batch failure today - note).'},
 'C09': {'ref': '4.D C09', 'technique': 'static analysis: cancellation-sharing typestate (which awaits can cancel a shared future), control dependence of completions on done()',
         'level': 'Task.cancel() cancels what the task awaits: every await of a future reachable through the retention cache must be behind asyncio.shield, '
                  'every completion must be state-guarded or un-cancellable, and no raising completion may sit in the fan-out try. '
                  'Today 2 + 4 + 1 obligations fail (known finding F7, reproduced); any new site is a fresh violation.'
                  ' Results are delivered as they are yielded (= C04-B11): a held-back result keeps its caller pending and cancellable for the rest of the batch.',
         'note': COMMON_NOTE + 'nothing material - the shape is the property; C09-R4 (eviction tied to the future) is evaluated only once R1 holds.'},
 'C10': {'ref': '4.D C10', 'technique': TECH + 'dominance of growth sites by the size guard, no-suspension, who-may-call for the batch function and semaphore, container-kind rules',
         'level': 'Every growth of the batch list is dominated since the previous growth by len(list) < max_batch_size; the bulk growth is an islice bounded by max_batch_size - len(list) with no suspension after the guard; '
                  'the only zero-length return is the tabled closed-loop branch; the batch function is called only inside async with <semaphore built from max_concurrent_batches>; '
                  'asyncio.Queue + append/extend + one assembler in one dispatcher give FIFO; the bounded wait is wait_for(queue.get(), self.batch_timeout) whose TimeoutError ends the batch and whose item joins it; a batch is handed on only when full or timed out.',
         'note': COMMON_NOTE + 'dispatch latency and who shares a batch in time (timer magnitudes).'},
 'C11': {'ref': '4.D C11', 'technique': TECH + 'atomic-section (no suspension between miss and store), must-pass-through eviction on all exits, def-use of the delay',
         'level': 'No suspension point lies between the KeyError edge of the retention lookup and the store of the new future; only that path enqueues, with the same key and future; '
                  'every exit after the enqueue (normal, exception, cancel) passes del/pop or call_later(self.retention_timeout, cache.pop, key); the hit path mutates nothing; an immediate eviction is reached only when the retention test found no window; the cache is a strong per-instance dict; default key is str(arg). '
                  'The await of Queue.put is accepted as non-suspending only while the queue is constructed unbounded (re-checked on every run).',
         'note': COMMON_NOTE + 'window lengths in time.'},
 'C15': {'ref': '4.D C15', 'technique': 'static analysis: set comparison partial-keywords vs keyword-only parameters over sibling decorators, def-use chains, registry shape',
         'level': 'For the three option decorators the functools.partial returned for func=None must bind exactly the keyword-only options to the same-named parameters; '
                  'each option is followed from the decorator through the constructor to its point of use; the per-loop registry is a WeakKeyDictionary keyed by get_running_loop() with atomic create-and-store, a batcher is created only through the miss edge of the registry look-up, and the batcher a call is delegated to comes, on every path, from this activation\'s look-up or store (never from a variable written by an earlier call); the wrapper is a coroutine function and forwards argument and key.',
         'note': COMMON_NOTE + '"behaves identically" as observable behaviour (follows only to the extent both forms then run the same code with the same bindings).'},
 'C03': {'ref': '4.C C03', 'technique': TECH + 'success-only-flag path rule, effect sets of the round set, value flow of dequeued producers through the gather idiom, thread-affinity classes',
         'level': 'The completion flag is settable only on the normal edge of the wrapped call; the round set is bound once and only grows; an Exception of the call is contained and leads back to the round loop; '
                  'every dequeue (3 sites) flows into a loader coroutine that is gathered before the list is cleared or the timer awaited; the loader contains producer failures and records each element as it arrives; '
                  'every entry point makes exactly one thread-safe hand-off with its adaptor; any-thread code touches the asyncio.Queue only via call_soon_threadsafe and must not mutate the loop-owned flag '
                  '(today violated by _put: known finding F5); no suspension between set() and the round-loop test; a successful call always sets the flag; loaders are gathered before their list is cleared or re-bound.'
                  ' After a successful call of the wrapped function every path back to the round test - exception edges of later statements in the same try included - passes the flag being set.',
         'note': COMMON_NOTE + '"eventually" in time; asyncio.Queue / wait_for internals; exactly-once for foreign-thread submissions (not promised).'},
 'C07': {'ref': '4.C C07', 'technique': TECH + 'ordering rule in wait(), atomic-section rule (clear+task_done before next suspension), get/task_done pairing typestate, cancel-transparency of handlers in the daemon',
         'level': 'wait() joins the queue then waits for the flag with nothing suspending afterwards; after the blocking get the flag is cleared and the producer marked done before the daemon can be suspended; '
                  'each successful dequeue is paired with exactly one task_done; wait() cancels only the pending timed read under cancel=True; Timeout and Cancelled edges of the timed read both flush; '
                  'every handler in the daemon\'s coroutines that can catch a cancellation delivered at a suspension point must re-raise (3 swallow it today: known finding F6); the flag starts out set; the drain generator is never consumed by something that can stop early.',
         'note': COMMON_NOTE + 'asyncio\'s FIFO ready queue and Queue.join (trusted); liveness in time.'},
 'C08': {'ref': '4.C C08', 'technique': TECH + 'who-may-call rule for the wrapped function, control dependence on the non-empty test, must-pass-through of a fresh timer, def-use of the timeout',
         'level': 'The wrapped function has one awaited call site inside the single daemon (spawned once); the call is control-dependent on the truthiness of the set passed; '
                  'it is reachable only through the expiry/cancel edge of a timer armed after the last dequeue, which is wait_for(queue.get(), self.timeout) with self.timeout the constructor option; '
                  'drain precedes arming, nothing suspends between the start of an iteration and arming, drained producers are gathered before the timer is awaited, and a successful timed get goes back to the loop head.',
         'note': COMMON_NOTE + 'every numeric timing claim (the call starts `timeout` after the last arrival; tie behaviour).'},
 'C16': {'ref': '4.E C16', 'technique': TECH + 'sibling protocol rule (producer/consumer/sentinel), must-pass-through on producer exits, lexical scope of the executor',
         'level': 'Both bridges are checked as one protocol: the sentinel put lies on every exit of each producer and after all element puts; the consumer\'s loop test is an identity comparison with the module sentinel and yields every other value unconditionally; '
                  'the producer future is awaited / its result() taken after the loop; a synchronous iterator is advanced only in the function handed to run_in_executor; the hand-off uses call_soon_threadsafe(q.put_nowait) resp. queue.Queue; '
                  'the ThreadPoolExecutor(1) with-block (or try/finally shutdown(wait=True)) encloses submit, loop and collection; an exception of the source escapes the producer; the consumer loop has no exit but the sentinel and dequeues without a timeout; a caller-supplied loop is never closed or stopped; a hand-off queue fed with put_nowait is unbounded.',
         'note': COMMON_NOTE + 'loop responsiveness as measured time; early abandonment of the generator by the consumer (outside the statement).'},
 'C17': {'ref': '4.E C17', 'technique': 'static analysis: path enumeration with facts over the atoms same/running/closed (truth table), lexical lock regions, double-check path rule, provenance of loop and awaitable arguments',
         'level': 'Every path through ensure_aw - with the function handed to the executor expanded in place, whatever its form (closure, module helper with arguments, operator.methodcaller, @contextmanager helper) - is classified by what evaluates the awaitable and must carry the guard facts of the dispatch table; the per-loop lock is released on every exit; run_until_complete/run_forever sites are inside `with _get_loop_lock(<same loop>)`; '
                  'the lock table is written only under the creation lock through the miss edge of a locked re-probe, keyed by id(loop), and nothing but the finalizer registered at creation removes an entry; the awaitable reaches run_until_complete / run_coroutine_threadsafe with the target loop and every branch is `return await` without handlers (a handler in the worker must re-raise unchanged); '
                  'loop_in_thread returns only through the true edge of is_running(); the stopper uses call_soon_threadsafe(loop.stop) then joins.',
         'note': COMMON_NOTE + 'the TOCTOU between the is_running() test and the loop stopping/starting; completion under pool exhaustion.'},
 'C18': {'ref': '4.E C18', 'technique': 'static analysis: affine-use (ownership) analysis of one-shot iterator values along both paths of split',
         'level': 'split is evaluated symbolically on both paths (callable / iterable condition): every iterator value (parameters, each tee output, map, compress) is consumed at most once; the callable is applied by exactly one map over a private tee copy of the source; '
                  'the results are compress(a, c) and compress(b, map(not_, c\')) with a, b and c, c\' sibling outputs of one tee each, truthy side first; no eager consumer; split and its helpers never close / throw into an iterator and no bare next() can leak StopIteration out of a generator; exhaust drains via deque(maxlen=0) and returns nothing.'
                  " What is mapped over the source is the caller's own predicate (a partial or wrapper built from it is something else); exhaust has no handler around its drain that can complete normally.",
         'note': COMMON_NOTE + 'nothing material; tee/compress/map semantics are trusted stdlib.'},
 'C19': {'ref': '4.E C19', 'technique': 'static analysis: syntactic rules on the nested helpers with path checks, forbidden-call scan with positive control, default-argument resolution',
         'level': 'the string item is cut once at the first separator (split(sep, 1), partition(sep), or find(sep) with slices [:i] / [i + len(sep):]); a missing separator reaches `raise ValueError` on every path; the default parser resolves to ast.literal_eval and the module contains no eval/exec/compile/import/pickle/getattr call or reference '
                  '(positive control must match); parse(x) is control-dependent on isinstance(x, str) and every Exception edge of it reaches `return x`, with x never re-bound on the way (the parser and the fallback see the caller\'s value), every string reaches the parser, and a module-level guarded parser is handed the caller\'s parser at every use; the parse_keys switch selects (parsed, parsed) vs (raw, parsed); mappings go through .items() and every item through the pair parser into dict().'
                  " From the success edge of the parser call every path returns that call's value; the item is not re-bound before it is taken apart; nothing is refused because of what a transformation of the separator looks like.",
         'note': COMMON_NOTE + 'extensional equality with a reference model on all inputs; behaviour of ast.literal_eval itself.'},
 'C20': {'ref': '4.E C20', 'technique': 'static analysis: call-shape rule on asyncio.gather, iteration provenance, control dependence of the yield',
         'level': 'gather_excs passes *aws unfiltered to asyncio.gather with the literal return_exceptions=True, iterates the awaited result directly, yields res if and only if isinstance(res, only) (no further condition); raise_first_exc forwards (aws, only) and raises the first value.',
         'note': COMMON_NOTE + 'nothing material; gather\'s run-to-completion and ordering are trusted stdlib behaviour.'},
}
