"""Source-level normalisations applied to every unit before binding (positions are kept).

NamedTuple records are rewritten to the plain tuples they are:

    class _InFlight(NamedTuple):            _InFlight(a, b)      ->  (a, b)
        loop: Loop                          _InFlight(event=b, loop=a) -> (a, b)
        event: Event                        x.loop / x.event     ->  x[0] / x[1]

so that every rule written for tuple markers / tuple queue entries decides the record form too.
The rewritten nodes carry `_nt = <class name>` (constructor) / `_nt_field = <name>` (field access).

`x.field` is rewritten only when `x` is a plain local name (never `self`/`cls`), the field belongs to a
NamedTuple of this module, the name is not used as a method (`x.field(...)`), and nothing says that `x`
is something else (an annotation naming another class, an assignment from another class' constructor).
"""
from __future__ import annotations

import ast
from typing import Dict, List, Optional, Set, Tuple


def nt_classes(tree: ast.Module) -> Dict[str, List[Tuple[str, Optional[ast.expr]]]]:
    out: Dict[str, List[Tuple[str, Optional[ast.expr]]]] = {}
    for st in tree.body:
        if isinstance(st, ast.ClassDef):
            bases = [ast.unparse(b).split('.')[-1] for b in st.bases]
            # a frozen dataclass of plain fields is a record too (read through its attributes only; never unpacked)
            frozen_dc = False
            if not bases and not st.keywords and len(st.decorator_list) == 1:
                d = st.decorator_list[0]
                if isinstance(d, ast.Call) and ast.unparse(d.func).split('.')[-1] == 'dataclass' and not d.args \
                        and any(k.arg == 'frozen' and isinstance(k.value, ast.Constant) and k.value.value is True for k in d.keywords) \
                        and all(k.arg in ('frozen', 'slots', 'eq', 'repr', 'order') for k in d.keywords):
                    frozen_dc = True
            if ('NamedTuple' in bases and len(bases) == 1 and not st.keywords) or frozen_dc:
                fields: List[Tuple[str, Optional[ast.expr]]] = []
                plain = True
                for b in st.body:
                    if isinstance(b, ast.AnnAssign) and isinstance(b.target, ast.Name):
                        fields.append((b.target.id, b.value))
                    elif isinstance(b, ast.Expr) and isinstance(b.value, ast.Constant):
                        continue
                    elif isinstance(b, ast.Pass):
                        continue
                    else:
                        plain = False    # methods / properties: keep the class opaque
                if plain and fields:
                    out[st.name] = fields
        elif isinstance(st, ast.Assign) and len(st.targets) == 1 and isinstance(st.targets[0], ast.Name) \
                and isinstance(st.value, ast.Call) and ast.unparse(st.value.func).split('.')[-1] == 'namedtuple' \
                and len(st.value.args) == 2 and not st.value.keywords:
            spec = st.value.args[1]
            names: Optional[List[str]] = None
            if isinstance(spec, ast.Constant) and isinstance(spec.value, str):
                names = spec.value.replace(',', ' ').split()
            elif isinstance(spec, (ast.List, ast.Tuple)) and all(isinstance(e, ast.Constant) and isinstance(e.value, str) for e in spec.elts):
                names = [e.value for e in spec.elts]
            if names:
                out[st.targets[0].id] = [(n, None) for n in names]
    return out


class _Rewrite(ast.NodeTransformer):
    def __init__(self, classes, field_index: Dict[str, int], blocked: Set[Tuple[int, str]], known: Optional[Set[Tuple[int, str]]] = None):
        self.classes = classes
        self.field_index = field_index
        self.blocked = blocked        # (id of function node, variable name) pairs known not to be records
        self.known = known or set()   # (id of function node, variable name) pairs annotated as / built from a record class
        self.fn_stack: List[ast.AST] = []

    def _visit_fn(self, node):
        self.fn_stack.append(node)
        self.generic_visit(node)
        self.fn_stack.pop()
        return node

    visit_FunctionDef = _visit_fn
    visit_AsyncFunctionDef = _visit_fn
    visit_Lambda = _visit_fn

    def visit_Call(self, node: ast.Call):
        self.generic_visit(node)
        f = node.func
        if isinstance(f, ast.Name) and f.id in self.classes:
            fields = self.classes[f.id]
            if any(isinstance(a, ast.Starred) for a in node.args) or any(k.arg is None for k in node.keywords):
                return node
            vals: List[Optional[ast.expr]] = list(node.args) + [None] * (len(fields) - len(node.args))
            if len(node.args) > len(fields):
                return node
            names = [n for n, _ in fields]
            for k in node.keywords:
                if k.arg not in names or vals[names.index(k.arg)] is not None:
                    return node
                vals[names.index(k.arg)] = k.value
            for i, (n, d) in enumerate(fields):
                if vals[i] is None:
                    if d is None:
                        return node
                    vals[i] = d
            t = ast.Tuple(elts=vals, ctx=ast.Load())
            ast.copy_location(t, node)
            t._nt = f.id  # type: ignore[attr-defined]
            return t
        return node

    def visit_Attribute(self, node: ast.Attribute):
        self.generic_visit(node)
        if not isinstance(node.ctx, ast.Load) or node.attr not in self.field_index:
            return node
        v = node.value
        if not isinstance(v, ast.Name) or v.id in ('self', 'cls'):
            return node
        if any((id(fn), v.id) in self.blocked for fn in self.fn_stack):
            return node
        if getattr(node, '_is_method', False) and not any((id(fn), v.id) in self.known for fn in self.fn_stack):
            return node      # `x.field(...)` on something not known to be a record: may be a real method
        s = ast.Subscript(value=v, slice=ast.Constant(value=self.field_index[node.attr]), ctx=ast.Load())
        ast.copy_location(s, node)
        ast.copy_location(s.slice, node)
        s._nt_field = node.attr  # type: ignore[attr-defined]
        return s


def desugar_namedtuples(tree: ast.Module) -> int:
    """Rewrite in place; returns the number of rewritten nodes."""
    classes = nt_classes(tree)
    if not classes:
        return 0
    # a field name is usable when every record class that has it has it at the same index
    field_index: Dict[str, int] = {}
    clash: Set[str] = set()
    for fields in classes.values():
        for i, (n, _) in enumerate(fields):
            if n in field_index and field_index[n] != i:
                clash.add(n)
            field_index.setdefault(n, i)
    for n in clash:
        field_index.pop(n, None)
    # method uses `x.field(...)`; variables known to be something else
    blocked: Set[Tuple[int, str]] = set()
    for fn in ast.walk(tree):
        if isinstance(fn, (ast.FunctionDef, ast.AsyncFunctionDef)):
            a = fn.args
            for p in a.args + a.kwonlyargs + a.posonlyargs:
                if p.annotation is not None:
                    ann = ast.unparse(p.annotation)
                    if not any(c in ann for c in classes):
                        blocked.add((id(fn), p.arg))
            for n in ast.walk(fn):
                if isinstance(n, ast.AnnAssign) and isinstance(n.target, ast.Name):
                    ann = ast.unparse(n.annotation)
                    if not any(c in ann for c in classes) and 'Tuple' not in ann and 'Any' not in ann:
                        blocked.add((id(fn), n.target.id))
    for n in ast.walk(tree):
        if isinstance(n, ast.Call) and isinstance(n.func, ast.Attribute):
            n.func._is_method = True  # type: ignore[attr-defined]
    known: Set[Tuple[int, str]] = set()
    for fn in ast.walk(tree):
        if isinstance(fn, (ast.FunctionDef, ast.AsyncFunctionDef)):
            a = fn.args
            for p in a.args + a.kwonlyargs + a.posonlyargs:
                if p.annotation is not None and any(c in ast.unparse(p.annotation) for c in classes):
                    known.add((id(fn), p.arg))
            for n in ast.walk(fn):
                tg = v = None
                if isinstance(n, ast.Assign) and len(n.targets) == 1:
                    tg, v = n.targets[0], n.value
                elif isinstance(n, ast.AnnAssign) and n.value is not None:
                    tg, v = n.target, n.value
                if isinstance(tg, ast.Name) and isinstance(v, ast.Call) and isinstance(v.func, ast.Name) and v.func.id in classes:
                    known.add((id(fn), tg.id))
    before = sum(1 for _ in ast.walk(tree))
    rw = _Rewrite(classes, field_index, blocked, known)
    rw.visit(tree)
    # `rec._asdict()` for a local bound (once) to a record built here: the dict display of its fields
    for fn in [n for n in ast.walk(tree) if isinstance(n, (ast.FunctionDef, ast.AsyncFunctionDef))]:
        bound: Dict[str, List[ast.AST]] = {}
        for n in ast.walk(fn):
            if isinstance(n, ast.Name) and isinstance(n.ctx, (ast.Store, ast.Del)):
                bound.setdefault(n.id, []).append(n)
        rec_of: Dict[str, str] = {}
        for n in ast.walk(fn):
            tg = v = None
            if isinstance(n, ast.Assign) and len(n.targets) == 1:
                tg, v = n.targets[0], n.value
            elif isinstance(n, ast.AnnAssign) and n.value is not None:
                tg, v = n.target, n.value
            if isinstance(tg, ast.Name) and isinstance(v, ast.Tuple) and getattr(v, '_nt', None) in classes and len(bound.get(tg.id, [])) == 1:
                rec_of[tg.id] = v._nt  # type: ignore[attr-defined]
        if not rec_of:
            continue

        class AsDict(ast.NodeTransformer):
            def visit_Call(self, node: ast.Call):
                self.generic_visit(node)
                f = node.func
                if isinstance(f, ast.Attribute) and f.attr == '_asdict' and not node.args and not node.keywords \
                        and isinstance(f.value, ast.Name) and f.value.id in rec_of:
                    fields = classes[rec_of[f.value.id]]
                    d = ast.Dict(keys=[ast.Constant(value=nm) for nm, _ in fields],
                                 values=[ast.Subscript(value=ast.Name(id=f.value.id, ctx=ast.Load()), slice=ast.Constant(value=i), ctx=ast.Load())
                                         for i, _ in enumerate(fields)])
                    for y in ast.walk(d):
                        ast.copy_location(y, node)
                    d._nt_asdict = rec_of[f.value.id]  # type: ignore[attr-defined]
                    return d
                return node
        AsDict().visit(fn)
    ast.fix_missing_locations(tree)
    count = sum(1 for n in ast.walk(tree) if hasattr(n, '_nt') or hasattr(n, '_nt_field'))
    return count


# ---------------------------------------------------------------------------------------------------
# alias inlining
# ---------------------------------------------------------------------------------------------------

_FN = (ast.FunctionDef, ast.AsyncFunctionDef)


def _own(fn: ast.AST):
    """Nodes of a function body without descending into nested defs / classes / lambdas."""
    stack = list(ast.iter_child_nodes(fn))[::-1]
    while stack:
        n = stack.pop()
        yield n
        if isinstance(n, _FN + (ast.ClassDef, ast.Lambda)):
            continue
        stack.extend(list(ast.iter_child_nodes(n))[::-1])


def _bound_names(fn: ast.AST) -> Dict[str, int]:
    """{name: number of binding sites} in the function's own body (parameters count as one)."""
    out: Dict[str, int] = {}

    def add(n: str) -> None:
        out[n] = out.get(n, 0) + 1
    a = fn.args  # type: ignore[attr-defined]
    for p in a.posonlyargs + a.args + a.kwonlyargs + ([a.vararg] if a.vararg else []) + ([a.kwarg] if a.kwarg else []):
        add(p.arg)
    for n in _own(fn):
        if isinstance(n, ast.Name) and isinstance(n.ctx, (ast.Store, ast.Del)):
            add(n.id)
        elif isinstance(n, _FN + (ast.ClassDef,)):
            add(n.name)
        elif isinstance(n, (ast.Import, ast.ImportFrom)):
            for al in n.names:
                add((al.asname or al.name).split('.')[0])
        elif isinstance(n, ast.ExceptHandler) and n.name:
            add(n.name)
        elif isinstance(n, (ast.Global, ast.Nonlocal)):
            for x in n.names:
                add(x)
                add(x)      # never a candidate
    return out


def _in_loop(fn: ast.AST, target: ast.AST) -> bool:
    def walk(node, inloop):
        for ch in ast.iter_child_nodes(node):
            if ch is target:
                return inloop
            if isinstance(ch, _FN + (ast.ClassDef, ast.Lambda)):
                continue
            r = walk(ch, inloop or isinstance(ch, (ast.For, ast.AsyncFor, ast.While)))
            if r is not None:
                return r
        return None
    return bool(walk(fn, False))


def split_tuple_assignments(tree: ast.Module) -> int:
    """`a, b = X, Y` -> `a = X; b = Y` when no target name occurs in the right-hand side and the targets are
    plain names (evaluation order and values are the same)."""
    count = 0
    for node in ast.walk(tree):
        for field in ('body', 'orelse', 'finalbody'):
            body = getattr(node, field, None)
            if not isinstance(body, list):
                continue
            new_body = []
            for st in body:
                if isinstance(st, ast.Assign) and len(st.targets) == 1 and isinstance(st.targets[0], ast.Tuple) \
                        and isinstance(st.value, ast.Tuple) and len(st.targets[0].elts) == len(st.value.elts) \
                        and all(isinstance(t, ast.Name) for t in st.targets[0].elts) \
                        and not any(isinstance(v, ast.Starred) for v in st.value.elts):
                    tnames = {t.id for t in st.targets[0].elts}
                    rnames = {x.id for x in ast.walk(st.value) if isinstance(x, ast.Name)}
                    if not (tnames & rnames):
                        for t, v in zip(st.targets[0].elts, st.value.elts):
                            a = ast.Assign(targets=[t], value=v)
                            ast.copy_location(a, st)
                            a._split_from_tuple = True  # type: ignore[attr-defined]
                            new_body.append(a)
                        count += 1
                        continue
                new_body.append(st)
            if len(new_body) != len(body):
                body[:] = new_body
    return count


def inline_aliases(tree: ast.Module) -> int:
    """`x = self.stable_attr` / `m = obj.method` / `y = x`: replace the uses of such single-assignment
    locals by what they stand for (in the function and in the closures that capture them).

    Sound because nothing is moved in time that could change: `self._x` is inlined only when `_x` is private,
    assigned nowhere but in `__init__` and is not a property; `obj.attr` (obj a parameter or single-assignment local
    bound outside any loop) only when `attr` is never assigned anywhere in the module and the alias is
    only ever called or passed along as a callable (a bound-method look-up); `y = x` only for such an x."""
    stored_attrs: Set[str] = set()
    init_attrs: Set[str] = set()
    props: Set[str] = set()
    methods: Set[str] = set()
    for c in ast.walk(tree):
        if isinstance(c, ast.ClassDef):
            for m in c.body:
                if isinstance(m, _FN):
                    methods.add(m.name)

    # public attributes that hold an object the constructor itself builds (`self.q = Queue()`): infrastructure,
    # as stable as a private attribute; public attributes copied from a constructor argument are settings
    built_attrs: Set[str] = set()
    for fn0 in ast.walk(tree):
        if isinstance(fn0, _FN) and fn0.name == '__init__':
            for st0 in ast.walk(fn0):
                if isinstance(st0, (ast.Assign, ast.AnnAssign)) and getattr(st0, 'value', None) is not None:
                    tg0 = st0.targets[0] if isinstance(st0, ast.Assign) else st0.target
                    if isinstance(tg0, ast.Attribute) and isinstance(tg0.value, ast.Name) and tg0.value.id == 'self' \
                            and isinstance(st0.value, ast.Call):
                        built_attrs.add(tg0.attr)

    module_single = _module_single_names(tree)

    def scan(node, in_init):
        for ch in ast.iter_child_nodes(node):
            if isinstance(ch, _FN):
                if any(ast.unparse(d).split('.')[-1] in ('property', 'cached_property', 'setter', 'getter') for d in ch.decorator_list):
                    props.add(ch.name)
                scan(ch, ch.name == '__init__')
                continue
            if isinstance(ch, ast.Attribute) and isinstance(ch.ctx, (ast.Store, ast.Del)):
                (init_attrs if in_init else stored_attrs).add(ch.attr)
            scan(ch, in_init)
    scan(tree, False)
    count = 0
    for fn in [n for n in ast.walk(tree) if isinstance(n, _FN)]:
        bound = _bound_names(fn)
        nested = [n for n in ast.walk(fn) if n is not fn and isinstance(n, _FN + (ast.Lambda,))]
        nested_bound: Set[str] = set()
        for nf in nested:
            if isinstance(nf, ast.Lambda):
                a = nf.args
                nested_bound |= {p.arg for p in a.posonlyargs + a.args + a.kwonlyargs}
            else:
                nested_bound |= set(_bound_names(nf))
        params = {p.arg for p in fn.args.posonlyargs + fn.args.args + fn.args.kwonlyargs}
        assigns: Dict[str, ast.AST] = {}
        for n in _own(fn):
            if isinstance(n, ast.Assign) and len(n.targets) == 1 and isinstance(n.targets[0], ast.Name):
                assigns.setdefault(n.targets[0].id, n)
            elif isinstance(n, ast.AnnAssign) and isinstance(n.target, ast.Name) and n.value is not None:
                assigns.setdefault(n.target.id, n)

        def stable_root(r: str) -> bool:
            if r in nested_bound:
                return False
            if r in params:
                return bound.get(r, 0) == 1
            if r in bound:
                st = assigns.get(r)
                if st is None and bound[r] == 1:
                    # bound once, by a def: a nested function's name
                    return any(isinstance(n_, _FN) and n_.name == r for n_ in _own(fn))
                return bound[r] == 1 and st is not None and not _in_loop(fn, st)
            if r == 'self':
                return True         # free variable `self` of a closure inside a method
            # a free variable: parameter / single-assignment local (outside loops) of an enclosing function
            outer = getattr(fn, '_alias_parent', None)
            while outer is not None:
                if isinstance(outer, _FN):
                    ob = _bound_names(outer)
                    if r in ob:
                        op_ = {p.arg for p in outer.args.posonlyargs + outer.args.args + outer.args.kwonlyargs}
                        if ob[r] != 1:
                            return False
                        if r in op_:
                            return True
                        ost = None
                        for n_ in _own(outer):
                            if isinstance(n_, ast.Assign) and len(n_.targets) == 1 and isinstance(n_.targets[0], ast.Name) and n_.targets[0].id == r:
                                ost = n_
                            elif isinstance(n_, ast.AnnAssign) and isinstance(n_.target, ast.Name) and n_.target.id == r and n_.value is not None:
                                ost = n_
                        return ost is not None and not _in_loop(outer, ost)
                outer = getattr(outer, '_alias_parent', None)
            return r in module_single

        subst: Dict[str, ast.expr] = {}
        for a, st in assigns.items():
            if bound.get(a, 0) != 1 or a in nested_bound or a in params:
                continue
            v = st.value
            chain: List[str] = []
            x = v
            while isinstance(x, ast.Attribute):
                chain.append(x.attr)
                x = x.value
            if not isinstance(x, ast.Name) or not isinstance(x.ctx, ast.Load):
                continue
            root = x.id
            if root == a or not stable_root(root):
                continue
            if not chain:
                # y = x  (x: self, a parameter, a single-assignment local, or a single-assignment variable of an
                # enclosing function / of the module that no closure rebinds)
                if root == 'self' or root in params or root in assigns or root not in bound or bound.get(root) == 1:
                    subst[a] = v
                continue
            if any(c in props for c in chain):
                continue
            uses = [n for n in ast.walk(fn) if isinstance(n, ast.Name) and n.id == a and isinstance(n.ctx, ast.Load)]
            if root == 'self':
                first = chain[-1]            # chain is outermost-first: chain[-1] is the attribute of the root
                if first in stored_attrs:
                    continue
                if first in methods and first not in init_attrs and len(chain) == 1:
                    rest = []            # bound method of self: falls through to the callable-only test
                elif first not in init_attrs or not (first.startswith('_') or first in built_attrs):
                    # a public attribute is part of the API: its user may re-assign it at any time, so reading
                    # it early is not the same as reading it late (seeded change C10-1)
                    continue
                elif len(chain) == 1:
                    subst[a] = v
                    continue
                else:
                    rest = chain[:-1]
            else:
                rest = chain
            # bound-method look-up on a stable object: no link is ever assigned outside a constructor
            if any(c in stored_attrs for c in rest):
                continue
            callable_only = True
            for u in uses:
                par = getattr(u, '_alias_parent', None)
                if par is None:
                    callable_only = False
                    break
                if isinstance(par, ast.Call) and (par.func is u or u in par.args or any(k.value is u for k in par.keywords)):
                    continue
                callable_only = False
                break
            if callable_only and uses:
                subst[a] = v
        if not subst:
            continue
        # resolve chains of aliases (y = x; m = y.method)
        changed = True
        rounds = 0
        while changed and rounds < 5:
            changed = False
            rounds += 1
            for a in list(subst):
                v = subst[a]
                x = v
                while isinstance(x, ast.Attribute):
                    x = x.value
                if isinstance(x, ast.Name) and x.id in subst and x.id != a:
                    subst[a] = _replace_root(v, subst[x.id])
                    changed = True

        class R(ast.NodeTransformer):
            def visit_Name(self, n: ast.Name):
                if isinstance(n.ctx, ast.Load) and n.id in subst:
                    new = _clone_expr(subst[n.id])
                    for y in ast.walk(new):
                        ast.copy_location(y, n)
                    new._alias_of = n.id  # type: ignore[attr-defined]
                    nonlocal_count[0] += 1
                    return new
                return n
        nonlocal_count = [0]
        # do not rewrite the defining assignments' own values (they contain no alias uses of themselves)
        R().visit(fn)
        count += nonlocal_count[0]
        # the defining assignments are dead stores of a pure value now: drop them
        dead = {id(assigns[a]): a for a in subst}
        gone: Set[str] = set()
        for node in ast.walk(fn):
            for field in ('body', 'orelse', 'finalbody'):
                body = getattr(node, field, None)
                if isinstance(body, list):
                    for i, st in enumerate(body):
                        if id(st) in dead:
                            ps = ast.Pass()
                            ast.copy_location(ps, st)
                            body[i] = ps
                            gone.add(dead[id(st)])
        if gone:
            fn._removed_locals = set(getattr(fn, '_removed_locals', set())) | gone  # type: ignore[attr-defined]
    return count


def _is_drain_def(fn: ast.AST) -> bool:
    """`def f(it): deque(it, maxlen=0)` (docstring aside): a function that does nothing but exhaust its argument."""
    if not isinstance(fn, ast.FunctionDef) or fn.decorator_list:
        return False
    a = fn.args
    if len(a.args) != 1 or a.vararg or a.kwarg or a.kwonlyargs or a.posonlyargs:
        return False
    body = [st for st in fn.body if not (isinstance(st, ast.Expr) and isinstance(st.value, ast.Constant))]
    if len(body) != 1:
        return False
    st = body[0]
    v = st.value if isinstance(st, (ast.Expr, ast.Return)) else None
    if isinstance(st, ast.For):
        return isinstance(st.iter, ast.Name) and st.iter.id == a.args[0].arg and not st.orelse \
            and all(isinstance(b, ast.Pass) for b in st.body)
    return isinstance(v, ast.Call) and ast.unparse(v.func).split('.')[-1] == 'deque' and len(v.args) == 1 \
        and isinstance(v.args[0], ast.Name) and v.args[0].id == a.args[0].arg and len(v.keywords) == 1 \
        and v.keywords[0].arg == 'maxlen' and isinstance(v.keywords[0].value, ast.Constant) and v.keywords[0].value.value == 0


def drain_of_map(tree: ast.Module, unit_path: str = '') -> int:
    """`exhaust(map(f, it))` / `deque(map(f, it), maxlen=0)` / `list(map(f, it))` as a statement whose value is
    discarded  ->  `for __drain in it: f(__drain)` : the same calls in the same order.  `exhaust` is accepted when
    its definition (here or in the sibling module it is imported from) does nothing but exhaust its argument."""
    import os
    drainers: Set[str] = set()
    for st in tree.body:
        if _is_drain_def(st):
            drainers.add(st.name)
        elif isinstance(st, ast.ImportFrom) and st.level >= 1 and st.module and unit_path:
            base = os.path.dirname(unit_path)
            for _ in range(st.level - 1):
                base = os.path.dirname(base)
            cand = os.path.join(base, *st.module.split('.')) + '.py'
            if os.path.exists(cand):
                try:
                    other = ast.parse(open(cand, encoding='utf-8').read())
                except SyntaxError:
                    continue
                defs = {d.name: d for d in other.body if isinstance(d, ast.FunctionDef)}
                for al in st.names:
                    if al.name in defs and _is_drain_def(defs[al.name]):
                        drainers.add(al.asname or al.name)
    count = 0
    for fn in [n for n in ast.walk(tree) if isinstance(n, _FN)]:
        added: Set[str] = set()
        for node in ast.walk(fn):
            for field in ('body', 'orelse', 'finalbody'):
                body = getattr(node, field, None)
                if not isinstance(body, list):
                    continue
                for i, st in enumerate(body):
                    if not (isinstance(st, ast.Expr) and isinstance(st.value, ast.Call)):
                        continue
                    c = st.value
                    fname = ast.unparse(c.func)
                    is_drain = (fname in drainers and len(c.args) == 1 and not c.keywords) or \
                        (fname.split('.')[-1] == 'deque' and len(c.args) == 1 and len(c.keywords) == 1 and c.keywords[0].arg == 'maxlen'
                         and isinstance(c.keywords[0].value, ast.Constant) and c.keywords[0].value.value == 0) or \
                        (fname in ('list', 'tuple', 'set') and len(c.args) == 1 and not c.keywords)
                    if not is_drain:
                        continue
                    m = c.args[0]
                    if not (isinstance(m, ast.Call) and isinstance(m.func, ast.Name) and m.func.id == 'map' and len(m.args) == 2
                            and not m.keywords and not any(isinstance(a, ast.Starred) for a in m.args)):
                        continue
                    f_, it_ = m.args
                    if not isinstance(f_, (ast.Name, ast.Attribute)):
                        continue
                    var = f'__drain_{st.lineno}_{st.col_offset}'
                    call = ast.Call(func=f_, args=[ast.Name(id=var, ctx=ast.Load())], keywords=[])
                    loop = ast.For(target=ast.Name(id=var, ctx=ast.Store()), iter=it_, body=[ast.Expr(value=call)], orelse=[], type_comment=None)
                    for y in ast.walk(loop):
                        if not hasattr(y, 'lineno'):
                            ast.copy_location(y, st)
                    ast.copy_location(loop, st)
                    loop._drain_of_map = True  # type: ignore[attr-defined]
                    body[i] = loop
                    added.add(var)
                    count += 1
        if added:
            # only the innermost function that holds the statement binds the variable
            pass
    # attribute the synthetic loop variables to the functions that own them
    for fn in [n for n in ast.walk(tree) if isinstance(n, _FN)]:
        own_added = {n.target.id for n in _own(fn) if isinstance(n, ast.For) and getattr(n, '_drain_of_map', False)}
        if own_added:
            fn._added_locals = set(getattr(fn, '_added_locals', set())) | own_added  # type: ignore[attr-defined]
    return count


def rename_single_use_defs(tree: ast.Module) -> int:
    """`def _impl(...): ...` followed in the same block by `name = _impl`, the only use of `_impl`  ->  `def name(...): ...`
    (two differently named variants bound to one name under an if/else become two definitions of that name)."""
    count = 0
    for fn in [n for n in ast.walk(tree) if isinstance(n, _FN)]:
        loads: Dict[str, int] = {}
        for n in ast.walk(fn):
            if isinstance(n, ast.Name) and isinstance(n.ctx, ast.Load):
                loads[n.id] = loads.get(n.id, 0) + 1
        bound = _bound_names(fn)
        removed: Set[str] = set()
        for node in ast.walk(fn):
            for field in ('body', 'orelse', 'finalbody'):
                body = getattr(node, field, None)
                if not isinstance(body, list):
                    continue
                i = 0
                while i < len(body):
                    st = body[i]
                    if isinstance(st, _FN) and bound.get(st.name, 0) == 1 and loads.get(st.name, 0) == 1 and not st.decorator_list:
                        for j in range(i + 1, len(body)):
                            a = body[j]
                            if isinstance(a, ast.Assign) and len(a.targets) == 1 and isinstance(a.targets[0], ast.Name) \
                                    and isinstance(a.value, ast.Name) and a.value.id == st.name:
                                new = a.targets[0].id
                                # the new name must not be read between the definition and the assignment, nor inside the function itself
                                between = body[i + 1:j]
                                if any(isinstance(x, ast.Name) and x.id == new for b_ in between + [st] for x in ast.walk(b_)):
                                    break
                                removed.add(st.name)
                                st.name = new
                                del body[j]
                                count += 1
                                break
                            if any(isinstance(x, ast.Name) and x.id == st.name for x in ast.walk(a)):
                                break
                    i += 1
        if removed:
            fn._removed_locals = set(getattr(fn, '_removed_locals', set())) | removed  # type: ignore[attr-defined]
    return count


def loops_to_comprehensions(tree: ast.Module) -> int:
    """`xs = []` / `d = {}` immediately followed by `for T in SRC:` whose body is nothing but `xs.append(E)` / `d[K] = V`
    statements over pure expressions of the loop targets  ->  `xs = [E for T in SRC]`, `d = {K: V for T in SRC}`.
    SRC must be re-iterable and not changed by iterating: a parameter annotated as a list / sequence / tuple / dict, or a local
    bound to a list display, a list comprehension or `list(...)`."""
    count = 0
    set_alias_parents(tree)

    def pure(e: ast.AST) -> bool:
        for x in ast.walk(e):
            if isinstance(x, (ast.Call, ast.Await, ast.Yield, ast.YieldFrom, ast.NamedExpr, ast.Lambda, ast.ListComp, ast.DictComp,
                              ast.SetComp, ast.GeneratorExp)):
                return False
        return True
    for fn in [n for n in ast.walk(tree) if isinstance(n, _FN)]:
        ann = {}
        a = fn.args
        for p_ in a.posonlyargs + a.args + a.kwonlyargs:
            if p_.annotation is not None:
                ann[p_.arg] = ast.unparse(p_.annotation).strip('\'"')
        bound = _bound_names(fn)

        def reiterable(src: ast.AST) -> bool:
            if not isinstance(src, ast.Name):
                return False
            if src.id in ann and bound.get(src.id, 0) == 1:
                head = ann[src.id].split('[')[0].split('.')[-1]
                return head in ('List', 'list', 'Sequence', 'Tuple', 'tuple', 'Dict', 'dict', 'Set', 'set', 'FrozenSet', 'frozenset', 'Collection', 'Mapping')
            if bound.get(src.id, 0) == 1:
                for n in _own(fn):
                    if isinstance(n, ast.Assign) and len(n.targets) == 1 and isinstance(n.targets[0], ast.Name) and n.targets[0].id == src.id:
                        v = n.value
                        return isinstance(v, (ast.List, ast.ListComp, ast.Tuple)) or (
                            isinstance(v, ast.Call) and isinstance(v.func, ast.Name) and v.func.id in ('list', 'tuple', 'sorted'))
            return False
        for node in ast.walk(fn):
            for field in ('body', 'orelse', 'finalbody'):
                body = getattr(node, field, None)
                if not isinstance(body, list):
                    continue
                i = 0
                while i < len(body):
                    st = body[i]
                    # `d = {}` ; `for x in IT: k, v = f(x); d[k] = v`  ->  `d = dict(map(f, IT))`  (one pass over IT, same order)
                    if isinstance(st, ast.For) and not st.orelse and isinstance(st.target, ast.Name) and len(st.body) == 2 and i > 0:
                        b0, b1 = st.body
                        pv = body[i - 1]
                        ptg = pv.targets[0] if isinstance(pv, ast.Assign) and len(pv.targets) == 1 else getattr(pv, 'target', None) if isinstance(pv, ast.AnnAssign) else None
                        if isinstance(b0, ast.Assign) and len(b0.targets) == 1 and isinstance(b0.targets[0], ast.Tuple) and len(b0.targets[0].elts) == 2 \
                                and all(isinstance(t_, ast.Name) for t_ in b0.targets[0].elts) and isinstance(b0.value, ast.Call) \
                                and isinstance(b0.value.func, ast.Name) and len(b0.value.args) == 1 and not b0.value.keywords \
                                and isinstance(b0.value.args[0], ast.Name) and b0.value.args[0].id == st.target.id \
                                and isinstance(b1, ast.Assign) and len(b1.targets) == 1 and isinstance(b1.targets[0], ast.Subscript) \
                                and isinstance(b1.targets[0].value, ast.Name) and isinstance(b1.targets[0].slice, ast.Name) and isinstance(b1.value, ast.Name) \
                                and [b1.targets[0].slice.id, b1.value.id] == [t_.id for t_ in b0.targets[0].elts] \
                                and isinstance(ptg, ast.Name) and ptg.id == b1.targets[0].value.id and isinstance(getattr(pv, 'value', None), ast.Dict) \
                                and not pv.value.keys:
                            tmp = {st.target.id} | {t_.id for t_ in b0.targets[0].elts}
                            def _reads(scope_node, names) -> list:
                                out_ = []
                                for y in _own(scope_node):
                                    if isinstance(y, ast.Name) and y.id in names and isinstance(y.ctx, ast.Load):
                                        out_.append(y)
                                    elif isinstance(y, _FN):
                                        inner_ = names - set(_bound_names(y))       # names the nested function binds itself are its own
                                        if inner_:
                                            out_ += _reads(y, inner_)
                                    elif isinstance(y, ast.Lambda):
                                        la_ = y.args
                                        inner_ = names - {p_.arg for p_ in la_.posonlyargs + la_.args + la_.kwonlyargs}
                                        out_ += [z for z in ast.walk(y.body) if isinstance(z, ast.Name) and z.id in inner_ and isinstance(z.ctx, ast.Load)]
                                return out_
                            later = [y for y in _reads(fn, tmp) if not any(y is z for z in ast.walk(st))]
                            if not later and b0.value.func.id not in tmp and ptg.id not in tmp:
                                call = ast.Call(func=ast.Name(id='dict', ctx=ast.Load()), args=[
                                    ast.Call(func=ast.Name(id='map', ctx=ast.Load()), args=[b0.value.func, st.iter], keywords=[])], keywords=[])
                                new = ast.Assign(targets=[ast.Name(id=ptg.id, ctx=ast.Store())], value=call)
                                for y in ast.walk(new):
                                    if not hasattr(y, 'lineno'):
                                        ast.copy_location(y, st)
                                ast.copy_location(new, pv)
                                body[i - 1] = new
                                del body[i]
                                fn._removed_locals = set(getattr(fn, '_removed_locals', set())) | tmp  # type: ignore[attr-defined]
                                count += 1
                                continue
                    if not (isinstance(st, ast.For) and not st.orelse and reiterable(st.iter)):
                        i += 1
                        continue
                    tnames = {x.id for x in ast.walk(st.target) if isinstance(x, ast.Name)}
                    acc = {}      # accumulator name -> ('list', elt) | ('dict', key, value)
                    ok = bool(st.body)
                    for b in st.body:
                        if isinstance(b, ast.Expr) and isinstance(b.value, ast.Call) and isinstance(b.value.func, ast.Attribute) \
                                and b.value.func.attr == 'append' and isinstance(b.value.func.value, ast.Name) and len(b.value.args) == 1 \
                                and not b.value.keywords and pure(b.value.args[0]) and b.value.func.value.id not in acc:
                            acc[b.value.func.value.id] = ('list', b.value.args[0])
                        elif isinstance(b, ast.Assign) and len(b.targets) == 1 and isinstance(b.targets[0], ast.Subscript) \
                                and isinstance(b.targets[0].value, ast.Name) and pure(b.targets[0].slice) and pure(b.value) \
                                and b.targets[0].value.id not in acc:
                            acc[b.targets[0].value.id] = ('dict', b.targets[0].slice, b.value)
                        else:
                            ok = False
                            break
                    if not ok or not acc or (set(acc) & tnames):
                        i += 1
                        continue
                    # each accumulator is initialised empty in the statements right before the loop, and nothing in the
                    # expressions reads an accumulator
                    k = i - 1
                    inits = {}
                    while k >= 0 and len(inits) < len(acc):
                        p_ = body[k]
                        tg = p_.targets[0] if isinstance(p_, ast.Assign) and len(p_.targets) == 1 else getattr(p_, 'target', None) if isinstance(p_, ast.AnnAssign) else None
                        v = getattr(p_, 'value', None)
                        if isinstance(tg, ast.Name) and tg.id in acc and tg.id not in inits and (
                                (acc[tg.id][0] == 'list' and isinstance(v, ast.List) and not v.elts) or
                                (acc[tg.id][0] == 'dict' and isinstance(v, ast.Dict) and not v.keys)):
                            inits[tg.id] = k
                            k -= 1
                            continue
                        break
                    reads = {x.id for spec in acc.values() for e_ in spec[1:] for x in ast.walk(e_) if isinstance(x, ast.Name)}
                    if len(inits) != len(acc) or (reads & set(acc)) or (reads & {st.iter.id}):
                        i += 1
                        continue
                    # loop variables must not be read after the loop
                    def rebound_around(y: ast.Name) -> bool:
                        """the read sits in the body of a later loop / handler / comprehension that binds the name itself"""
                        a_ = getattr(y, '_alias_parent', None)
                        while a_ is not None and a_ is not fn:
                            if isinstance(a_, (ast.For, ast.AsyncFor)) and any(isinstance(t_, ast.Name) and t_.id == y.id for t_ in ast.walk(a_.target)) \
                                    and not any(y is z for z in ast.walk(a_.iter)):
                                return True
                            if isinstance(a_, ast.comprehension):
                                return False
                            if isinstance(a_, (ast.ListComp, ast.SetComp, ast.DictComp, ast.GeneratorExp)) and any(
                                    isinstance(t_, ast.Name) and t_.id == y.id for g_ in a_.generators for t_ in ast.walk(g_.target)):
                                return True
                            if isinstance(a_, ast.ExceptHandler) and a_.name == y.id:
                                return True
                            a_ = getattr(a_, '_alias_parent', None)
                        # ... or an unconditional assignment earlier in one of the blocks that enclose the read re-binds it first
                        node_ = y
                        while node_ is not None and node_ is not fn:
                            par_ = getattr(node_, '_alias_parent', None)
                            for fld_ in ('body', 'orelse', 'finalbody'):
                                blk = getattr(par_, fld_, None)
                                if isinstance(blk, list) and any(node_ is b_ for b_ in blk):
                                    for b_ in blk:
                                        if b_ is node_:
                                            break
                                        if b_ is st:
                                            continue
                                        if getattr(b_, 'lineno', 0) > getattr(st, 'end_lineno', st.lineno) and isinstance(b_, (ast.Assign, ast.AnnAssign)) \
                                                and getattr(b_, 'value', None) is not None and any(
                                                    isinstance(t_, ast.Name) and t_.id == y.id
                                                    for tg_ in (b_.targets if isinstance(b_, ast.Assign) else [b_.target]) for t_ in ast.walk(tg_)) \
                                                and not any(isinstance(z, ast.Name) and z.id == y.id and isinstance(z.ctx, ast.Load) for z in ast.walk(b_.value)):
                                            return True
                            node_ = par_
                        return False
                    used_later = any(isinstance(y, ast.Name) and y.id in tnames and isinstance(y.ctx, ast.Load)
                                     and not any(y is z for z in ast.walk(st)) and not rebound_around(y) for y in ast.walk(fn)
                                     if getattr(y, 'lineno', 0) > getattr(st, 'end_lineno', st.lineno))
                    if used_later:
                        i += 1
                        continue
                    for nm, idx in inits.items():
                        spec = acc[nm]
                        gen = ast.comprehension(target=_clone_expr(st.target), iter=_clone_expr(st.iter), ifs=[], is_async=0)
                        if spec[0] == 'list':
                            comp = ast.ListComp(elt=spec[1], generators=[gen])
                        else:
                            comp = ast.DictComp(key=spec[1], value=spec[2], generators=[gen])
                        new = ast.Assign(targets=[ast.Name(id=nm, ctx=ast.Store())], value=comp)
                        for y in ast.walk(new):
                            if not hasattr(y, 'lineno'):
                                ast.copy_location(y, body[idx])
                        ast.copy_location(new, body[idx])
                        body[idx] = new
                    del body[i]
                    count += 1
    return count


def loop_to_extend_map(tree: ast.Module) -> int:
    """`for x in IT: L.append(f(x))` (nothing else in the body, no else clause, x used only as that argument, f and L plain
    names / attribute paths not involving x)  ->  `L.extend(map(f, IT))`: the same calls and appends in the same order."""
    count = 0
    for fn in [n for n in ast.walk(tree) if isinstance(n, _FN)]:
        for node in ast.walk(fn):
            for field in ('body', 'orelse', 'finalbody'):
                body = getattr(node, field, None)
                if not isinstance(body, list):
                    continue
                for i, st in enumerate(body):
                    if not (isinstance(st, ast.For) and not st.orelse and isinstance(st.target, ast.Name) and len(st.body) == 1):
                        continue
                    b = st.body[0]
                    if not (isinstance(b, ast.Expr) and isinstance(b.value, ast.Call) and isinstance(b.value.func, ast.Attribute)
                            and b.value.func.attr == 'append' and len(b.value.args) == 1 and not b.value.keywords):
                        continue
                    c = b.value.args[0]
                    x = st.target.id
                    if isinstance(c, ast.Name) and c.id == x and not any(isinstance(y, ast.Name) and y.id == x for y in ast.walk(b.value.func.value)):
                        # `for x in IT: L.append(x)`  ->  `L.extend(IT)`
                        later = [y for y in ast.walk(fn) if isinstance(y, ast.Name) and y.id == x and isinstance(y.ctx, ast.Load) and y is not c]
                        if later:
                            continue
                        e = ast.Expr(value=ast.Call(func=ast.Attribute(value=b.value.func.value, attr='extend', ctx=ast.Load()), args=[st.iter], keywords=[]))
                        for y in ast.walk(e):
                            if not hasattr(y, 'lineno'):
                                ast.copy_location(y, st)
                        ast.copy_location(e, st)
                        ast.copy_location(e.value, st)
                        body[i] = e
                        fn._removed_locals = set(getattr(fn, '_removed_locals', set())) | {x}  # type: ignore[attr-defined]
                        count += 1
                        continue
                    if not (isinstance(c, ast.Call) and len(c.args) == 1 and not c.keywords and isinstance(c.args[0], ast.Name) and c.args[0].id == x
                            and isinstance(c.func, (ast.Name, ast.Attribute))):
                        continue
                    if any(isinstance(y, ast.Name) and y.id == x for y in ast.walk(c.func)) or \
                            any(isinstance(y, ast.Name) and y.id == x for y in ast.walk(b.value.func.value)):
                        continue
                    # the loop variable must not be read after the loop (it would keep its last value)
                    # (a nested function with a parameter / local of the same name has a variable of its own)
                    own_x: Set[int] = set()
                    for nf in ast.walk(fn):
                        if nf is not fn and isinstance(nf, _FN + (ast.Lambda,)):
                            a_ = nf.args
                            pn = {q_.arg for q_ in a_.posonlyargs + a_.args + a_.kwonlyargs}
                            if x in pn or (not isinstance(nf, ast.Lambda) and any(
                                    isinstance(z, ast.Name) and z.id == x and isinstance(z.ctx, ast.Store) for z in ast.walk(nf))):
                                own_x |= {id(z) for z in ast.walk(nf)}
                    later = [y for s2 in ast.walk(fn) for y in [s2] if isinstance(y, ast.Name) and y.id == x and isinstance(y.ctx, ast.Load)
                             and y is not c.args[0] and id(y) not in own_x]
                    if later:
                        continue
                    m = ast.Call(func=ast.Name(id='map', ctx=ast.Load()), args=[c.func, st.iter], keywords=[])
                    e = ast.Expr(value=ast.Call(func=ast.Attribute(value=b.value.func.value, attr='extend', ctx=ast.Load()), args=[m], keywords=[]))
                    for y in ast.walk(e):
                        if not hasattr(y, 'lineno'):
                            ast.copy_location(y, st)
                    ast.copy_location(e, st)
                    ast.copy_location(e.value, st)
                    body[i] = e
                    fn._removed_locals = set(getattr(fn, '_removed_locals', set())) | {x}  # type: ignore[attr-defined]
                    count += 1
    return count


def drop_casts(tree: ast.Module) -> int:
    """`typing.cast(T, e)` is `e` at run time (the type argument - usually a name or a string - is not evaluated for effect)."""
    names: Set[str] = set()       # local names of typing.cast
    nt_names: Set[str] = set()    # local names of typing.NewType
    mods: Set[str] = set()        # local names of the typing module
    for st in ast.walk(tree):
        if isinstance(st, ast.ImportFrom) and st.module in ('typing', 'typing_extensions') and not st.level:
            for al in st.names:
                if al.name == 'cast':
                    names.add(al.asname or al.name)
                elif al.name == 'NewType':
                    nt_names.add(al.asname or al.name)
        elif isinstance(st, ast.Import):
            for al in st.names:
                if al.name in ('typing', 'typing_extensions'):
                    mods.add(al.asname or al.name)
    if not names and not mods and not nt_names:
        return 0
    # a local re-binding of the name would make it something else
    for n in ast.walk(tree):
        if isinstance(n, ast.Name) and isinstance(n.ctx, (ast.Store, ast.Del)) and n.id in names | mods:
            names.discard(n.id)
            mods.discard(n.id)
        elif isinstance(n, ast.arg) and n.arg in names | mods:
            names.discard(n.arg)
            mods.discard(n.arg)
    # `Key = NewType('Key', T)` at module level: `Key(e)` is `e` at run time (the callable NewType returns is the identity)
    newtypes: Set[str] = set()
    for st in tree.body:
        tgt = None
        if isinstance(st, ast.Assign) and len(st.targets) == 1 and isinstance(st.targets[0], ast.Name):
            tgt, val = st.targets[0].id, st.value
        elif isinstance(st, ast.AnnAssign) and isinstance(st.target, ast.Name) and st.value is not None:
            tgt, val = st.target.id, st.value
        if tgt is None or not isinstance(val, ast.Call) or len(val.args) != 2 or val.keywords:
            continue
        f = val.func
        if (isinstance(f, ast.Name) and f.id in nt_names) or (
                isinstance(f, ast.Attribute) and f.attr == 'NewType' and isinstance(f.value, ast.Name) and f.value.id in mods):
            newtypes.add(tgt)
    if newtypes:
        stores: Dict[str, int] = {}
        for n in ast.walk(tree):
            if isinstance(n, ast.Name) and isinstance(n.ctx, (ast.Store, ast.Del)) and n.id in newtypes:
                stores[n.id] = stores.get(n.id, 0) + 1
            elif isinstance(n, ast.arg) and n.arg in newtypes:
                stores[n.arg] = 2
            elif isinstance(n, (ast.FunctionDef, ast.AsyncFunctionDef, ast.ClassDef)) and n.name in newtypes:
                stores[n.name] = 2
        newtypes = {k for k in newtypes if stores.get(k) == 1}
    count = [0]

    class R(ast.NodeTransformer):
        def visit_Call(self, node: ast.Call):
            self.generic_visit(node)
            f = node.func
            is_cast = (isinstance(f, ast.Name) and f.id in names) or (
                isinstance(f, ast.Attribute) and f.attr == 'cast' and isinstance(f.value, ast.Name) and f.value.id in mods)
            if is_cast and len(node.args) == 2 and not node.keywords and not any(isinstance(a, ast.Starred) for a in node.args):
                count[0] += 1
                return node.args[1]
            if isinstance(f, ast.Name) and f.id in newtypes and len(node.args) == 1 and not node.keywords \
                    and not isinstance(node.args[0], ast.Starred):
                count[0] += 1
                return node.args[0]
            return node
    R().visit(tree)
    return count[0]


def drop_annotations(tree: ast.Module) -> int:
    """`target: T = value` -> `target = value` (the annotation of an assignment has no run-time effect on the
    value or on the scope of the name); bare declarations `x: T` stay."""
    count = 0
    for node in ast.walk(tree):
        for field in ('body', 'orelse', 'finalbody'):
            body = getattr(node, field, None)
            if not isinstance(body, list):
                continue
            for i, st in enumerate(body):
                if isinstance(st, ast.AnnAssign) and st.value is not None:
                    a = ast.Assign(targets=[st.target], value=st.value)
                    ast.copy_location(a, st)
                    for k, v in vars(st).items():
                        if k.startswith('_') and k not in ('_fields', '_attributes', '_parent', '_alias_parent'):
                            setattr(a, k, v)
                    a._was_annotated = True  # type: ignore[attr-defined]
                    body[i] = a
                    count += 1
    return count


def _module_single_names(tree: ast.Module) -> Set[str]:
    """Module-level names bound exactly once (an assignment outside any loop / a def / a class / an import) and named
    in no `global` statement: they denote one object for the life of the module."""
    n_bind: Dict[str, int] = {}
    in_loop: Set[str] = set()

    def add(n: str, loop: bool) -> None:
        n_bind[n] = n_bind.get(n, 0) + 1
        if loop:
            in_loop.add(n)

    def walk(node: ast.AST, loop: bool) -> None:
        for ch in ast.iter_child_nodes(node):
            if isinstance(ch, _FN + (ast.ClassDef,)):
                add(ch.name, loop)
                continue
            if isinstance(ch, ast.Lambda):
                continue
            if isinstance(ch, ast.Name) and isinstance(ch.ctx, (ast.Store, ast.Del)):
                add(ch.id, loop)
            elif isinstance(ch, (ast.Import, ast.ImportFrom)):
                for al in ch.names:
                    add((al.asname or al.name).split('.')[0], loop)
            elif isinstance(ch, ast.ExceptHandler) and ch.name:
                add(ch.name, loop)
            walk(ch, loop or isinstance(ch, (ast.For, ast.AsyncFor, ast.While)))
    walk(tree, False)
    globals_: Set[str] = set()
    for n in ast.walk(tree):
        if isinstance(n, ast.Global):
            globals_ |= set(n.names)
    return {n for n, k in n_bind.items() if k == 1 and n not in in_loop and n not in globals_}


def inline_constants(tree: ast.Module) -> int:
    """A single-assignment variable of a function (outside loops, rebound by no closure) or of the module whose
    value is a literal constant - `None`, a number, a string, or a tuple of those - is replaced by the literal where
    it is read, in the scope itself and in the closures that capture it.  Names compared by identity (`is`) keep
    their name (a tuple literal would be a different object)."""
    def literal(v: ast.AST) -> bool:
        if isinstance(v, ast.Constant):
            return True
        if isinstance(v, ast.Tuple) and isinstance(v.ctx, ast.Load):
            return all(literal(e) for e in v.elts)
        if isinstance(v, ast.UnaryOp) and isinstance(v.op, ast.USub) and isinstance(v.operand, ast.Constant):
            return True
        return False

    count = 0
    scopes: List[ast.AST] = [tree] + [n for n in ast.walk(tree) if isinstance(n, _FN)]
    mod_single = _module_single_names(tree)
    for sc in scopes:
        consts: Dict[str, ast.AST] = {}
        if isinstance(sc, ast.Module):
            for st in sc.body:
                tg = v = None
                if isinstance(st, ast.Assign) and len(st.targets) == 1:
                    tg, v = st.targets[0], st.value
                elif isinstance(st, ast.AnnAssign) and st.value is not None:
                    tg, v = st.target, st.value
                if isinstance(tg, ast.Name) and tg.id in mod_single and literal(v) and not tg.id.startswith('__'):
                    consts[tg.id] = v
        else:
            bound = _bound_names(sc)
            for n in _own(sc):
                tg = v = None
                if isinstance(n, ast.Assign) and len(n.targets) == 1:
                    tg, v = n.targets[0], n.value
                elif isinstance(n, ast.AnnAssign) and n.value is not None:
                    tg, v = n.target, n.value
                if isinstance(tg, ast.Name) and bound.get(tg.id, 0) == 1 and literal(v) and not _in_loop(sc, n):
                    consts[tg.id] = v
        if not consts:
            continue
        # closures / inner scopes that rebind the name (or declare it nonlocal/global) disqualify it;
        # only *captured* reads are replaced in a function scope's own body when the read may come before the
        # assignment - so in the scope's own body we leave reads alone unless the scope is the module
        inner = [n for n in ast.walk(sc) if n is not sc and isinstance(n, _FN + (ast.Lambda, ast.ClassDef))]
        rebinding: Set[str] = set()
        for nf in inner:
            if isinstance(nf, ast.Lambda):
                a = nf.args
                rebinding |= {p.arg for p in a.posonlyargs + a.args + a.kwonlyargs + ([a.vararg] if a.vararg else []) + ([a.kwarg] if a.kwarg else [])}
            elif isinstance(nf, ast.ClassDef):
                for x in ast.walk(nf):
                    if isinstance(x, ast.Name) and isinstance(x.ctx, (ast.Store, ast.Del)):
                        rebinding.add(x.id)
            else:
                rebinding |= set(_bound_names(nf))
        for nm in list(consts):
            if nm in rebinding:
                del consts[nm]
        # identity comparisons keep the name
        for n in ast.walk(sc):
            if isinstance(n, ast.Compare) and any(isinstance(o, (ast.Is, ast.IsNot)) for o in n.ops):
                for x in [n.left] + n.comparators:
                    if isinstance(x, ast.Name) and x.id in consts and not isinstance(consts[x.id], ast.Constant):
                        del consts[x.id]
        if not consts:
            continue
        own_nodes = set(map(id, _own(sc))) if not isinstance(sc, ast.Module) else set()
        cnt = [0]

        class R(ast.NodeTransformer):
            def visit_Name(self, n: ast.Name):
                if isinstance(n.ctx, ast.Load) and n.id in consts and id(n) not in own_nodes:
                    new = _clone_expr(consts[n.id])
                    for y in ast.walk(new):
                        ast.copy_location(y, n)
                    cnt[0] += 1
                    return new
                return n
        if isinstance(sc, ast.Module):
            # module constants: replace reads inside functions only (module-level code may run before the assignment)
            for fn in [n for n in ast.walk(sc) if isinstance(n, _FN)]:
                shadow = set(_bound_names(fn))
                # names shadowed by this function or an enclosing function are not the module constant
                o = getattr(fn, '_alias_parent', None)
                while o is not None:
                    if isinstance(o, _FN):
                        shadow |= set(_bound_names(o))
                    o = getattr(o, '_alias_parent', None)
                saved = dict(consts)
                for nm in shadow:
                    consts.pop(nm, None)
                if consts:
                    for st in fn.body:
                        _visit_skipping_defs(R(), st)
                consts.clear()
                consts.update(saved)
        else:
            R().visit(sc)
        count += cnt[0]
    return count


def _visit_skipping_defs(tr: ast.NodeTransformer, st: ast.AST) -> None:
    """Apply *tr* to the names of a statement without descending into nested function definitions
    (they are handled as scopes of their own)."""
    class W(ast.NodeTransformer):
        def visit_FunctionDef(self, n):
            # defaults and decorators are evaluated in the enclosing scope
            n.args.defaults = [self.visit(d) for d in n.args.defaults]
            n.args.kw_defaults = [self.visit(d) if d is not None else None for d in n.args.kw_defaults]
            n.decorator_list = [self.visit(d) for d in n.decorator_list]
            return n
        visit_AsyncFunctionDef = visit_FunctionDef

        def visit_Name(self, n):
            return tr.visit_Name(n)
    W().visit(st)


def _clone_expr(e: ast.AST) -> ast.AST:
    new = type(e)()
    for f, v in ast.iter_fields(e):
        if isinstance(v, ast.AST):
            setattr(new, f, _clone_expr(v))
        elif isinstance(v, list):
            setattr(new, f, [_clone_expr(x) if isinstance(x, ast.AST) else x for x in v])
        else:
            setattr(new, f, v)
    return new


def _replace_root(v: ast.AST, new_root: ast.AST) -> ast.AST:
    if isinstance(v, ast.Name):
        return _clone_expr(new_root)
    assert isinstance(v, ast.Attribute)
    return ast.Attribute(value=_replace_root(v.value, new_root), attr=v.attr, ctx=ast.Load())


def set_alias_parents(tree: ast.AST) -> None:
    for n in ast.walk(tree):
        for ch in ast.iter_child_nodes(n):
            ch._alias_parent = n  # type: ignore[attr-defined]


# ---------------------------------------------------------------------------------------------------
# non-escaping local objects of private helper classes  ->  closure variables + nested functions
# ---------------------------------------------------------------------------------------------------

def _simple_helper_classes(tree: ast.Module) -> Dict[str, ast.ClassDef]:
    """Private module-level classes that are nothing but state + methods: no bases other than Generic[...]/object,
    no decorators, no class attributes (docstring, `__slots__` and bare annotations aside), no decorated or
    dunder methods except a plain `__init__` that only assigns `self.x = <expr>` / `self.x: T = <expr>`."""
    out: Dict[str, ast.ClassDef] = {}
    subclassed: Set[str] = set()
    for n in ast.walk(tree):
        if isinstance(n, ast.ClassDef):
            for b in n.bases:
                for x in ast.walk(b):
                    if isinstance(x, ast.Name):
                        subclassed.add(x.id)
    for st in tree.body:
        if not isinstance(st, ast.ClassDef) or not st.name.startswith('_') or st.keywords:
            continue
        is_dc = False
        if st.decorator_list:
            d0 = st.decorator_list[0]
            dn = ast.unparse(d0.func if isinstance(d0, ast.Call) else d0).split('.')[-1]
            if len(st.decorator_list) == 1 and dn == 'dataclass':
                is_dc = True
            else:
                continue
        # (a NamedTuple that has methods is, for an object that never leaves its function and is only reached through
        # attributes, a dataclass: fields by position / keyword, defaults from the class body)
        nt_like = [ast.unparse(b).split('.')[-1] for b in st.bases] == ['NamedTuple'] and not st.decorator_list \
            and any(isinstance(b, _FN) for b in st.body)
        if nt_like:
            is_dc = True
        elif any(not (ast.unparse(b).split('[')[0].split('.')[-1] in ('Generic', 'object')) for b in st.bases):
            continue
        if st.name in subclassed:
            continue
        ok = True
        for b in st.body:
            if isinstance(b, ast.Expr) and isinstance(b.value, ast.Constant):
                continue
            if isinstance(b, ast.Assign) and len(b.targets) == 1 and isinstance(b.targets[0], ast.Name) and b.targets[0].id == '__slots__':
                continue
            if isinstance(b, ast.AnnAssign) and b.value is None:
                continue
            if is_dc and isinstance(b, ast.AnnAssign) and isinstance(b.target, ast.Name):
                continue      # a dataclass field with a default / field(default_factory=...)
            if isinstance(b, ast.Pass):
                continue
            if isinstance(b, _FN) and not b.decorator_list:
                if b.name.startswith('__') and b.name != '__init__':
                    ok = False
                a = b.args
                if not a.args or a.args[0].arg != 'self' or a.vararg or a.kwarg or a.posonlyargs:
                    ok = False
                if any(isinstance(x, (ast.Global, ast.Nonlocal)) for x in ast.walk(b)):
                    ok = False
                # `self` only ever as `self.<name>`
                for x in ast.walk(b):
                    if isinstance(x, ast.Name) and x.id == 'self':
                        par = getattr(x, '_alias_parent', None)
                        if not (isinstance(par, ast.Attribute) and par.value is x):
                            ok = False
                continue
            ok = False
        init = next((b for b in st.body if isinstance(b, _FN) and b.name == '__init__'), None)
        if is_dc and (init is not None or any(isinstance(b, _FN) and b.name == '__post_init__' for b in st.body)):
            ok = False
        if is_dc:
            st._is_dataclass = True  # type: ignore[attr-defined]
        if init is not None:
            if isinstance(init, ast.AsyncFunctionDef):
                ok = False
            for b in init.body:
                if isinstance(b, ast.Expr) and isinstance(b.value, ast.Constant):
                    continue
                tg = None
                if isinstance(b, ast.Assign) and len(b.targets) == 1:
                    tg, val = b.targets[0], b.value
                elif isinstance(b, ast.AnnAssign) and b.value is not None:
                    tg, val = b.target, b.value
                if not (isinstance(tg, ast.Attribute) and isinstance(tg.value, ast.Name) and tg.value.id == 'self'):
                    ok = False
                    continue
                if any(isinstance(x, ast.Name) and x.id == 'self' for x in ast.walk(val)):
                    ok = False
        if ok:
            out[st.name] = st
    return out


def deobjectify(tree: ast.Module) -> int:
    """`b = _Helper(args)` where `b` never escapes (every use is `b.field` / `b.method(...)`): the object is
    replaced by one local per field (`b__field`, initialised as `__init__` does) and one nested function per method
    (`b__method`, with `self.x` -> `b__x`), i.e. the closure form of the same code.  Returns the number of objects
    rewritten.  Rewritten functions carry `_deobjectified = True`; synthesized nested functions `_synthetic = True`."""
    classes = _simple_helper_classes(tree)
    if not classes:
        return 0
    count = 0
    for fn in [n for n in ast.walk(tree) if isinstance(n, _FN)]:
        if getattr(fn, '_synthetic', False):
            continue
        bound = _bound_names(fn)
        # candidate assignments directly in the body of fn (not nested blocks: the object lives for the whole function)
        for idx, st in enumerate(list(fn.body)):
            tgt = val = None
            if isinstance(st, ast.Assign) and len(st.targets) == 1 and isinstance(st.targets[0], ast.Name):
                tgt, val = st.targets[0].id, st.value
            elif isinstance(st, ast.AnnAssign) and isinstance(st.target, ast.Name) and st.value is not None:
                tgt, val = st.target.id, st.value
            if tgt is None or not (isinstance(val, ast.Call) and isinstance(val.func, ast.Name) and val.func.id in classes):
                continue
            cls = classes[val.func.id]
            if bound.get(tgt, 0) != 1:
                continue
            if any(isinstance(a, ast.Starred) for a in val.args) or any(k.arg is None for k in val.keywords):
                continue
            # non-escaping: every other occurrence of the name (also in nested functions) is the value of an Attribute
            uses = [x for x in ast.walk(fn) if isinstance(x, ast.Name) and x.id == tgt and x is not (st.targets[0] if isinstance(st, ast.Assign) else st.target)]
            fields: List[str] = []
            init = next((b for b in cls.body if isinstance(b, _FN) and b.name == '__init__'), None)
            methods = {b.name: b for b in cls.body if isinstance(b, _FN) and b.name != '__init__'}
            init_assigns: List[Tuple[str, ast.expr]] = []
            dc_fields: List[Tuple[str, Optional[ast.expr]]] = []
            if getattr(cls, '_is_dataclass', False):
                for b in cls.body:
                    if isinstance(b, ast.AnnAssign) and isinstance(b.target, ast.Name) and 'ClassVar' not in ast.unparse(b.annotation):
                        dflt: Optional[ast.expr] = None
                        v_ = b.value
                        if isinstance(v_, ast.Call) and ast.unparse(v_.func).split('.')[-1] == 'field':
                            kw_ = {k.arg: k.value for k in v_.keywords}
                            if 'default_factory' in kw_:
                                dflt = ast.copy_location(ast.Call(func=kw_['default_factory'], args=[], keywords=[]), v_)
                            elif 'default' in kw_:
                                dflt = kw_['default']
                        elif v_ is not None:
                            dflt = v_
                        dc_fields.append((b.target.id, dflt))
                # bind constructor arguments by position / keyword, defaults otherwise
                names_ = [f for f, _ in dc_fields]
                given: Dict[str, ast.expr] = dict(zip(names_, val.args))
                dc_ok = len(val.args) <= len(names_)
                for k in val.keywords:
                    if k.arg not in names_ or k.arg in given:
                        dc_ok = False
                    given[k.arg] = k.value
                for f_, d_ in dc_fields:
                    if f_ in given:
                        init_assigns.append((f_, given[f_]))
                    elif d_ is not None:
                        init_assigns.append((f_, d_))
                    else:
                        dc_ok = False
                if not dc_ok:
                    continue
            if init is not None:
                for b in init.body:
                    if isinstance(b, ast.Assign):
                        init_assigns.append((b.targets[0].attr, b.value))
                    elif isinstance(b, ast.AnnAssign) and b.value is not None:
                        init_assigns.append((b.target.attr, b.value))
            fields = [f for f, _ in init_assigns]
            ok = True
            for u in uses:
                par = getattr(u, '_alias_parent', None)
                if not (isinstance(par, ast.Attribute) and par.value is u and (par.attr in fields or par.attr in methods)):
                    ok = False
                    break
                if par.attr in methods and isinstance(par.ctx, (ast.Store, ast.Del)):
                    ok = False
                    break
            # nested functions of fn must not rebind the name
            for nf in ast.walk(fn):
                if nf is not fn and isinstance(nf, _FN + (ast.Lambda,)):
                    nb = _bound_names(nf) if not isinstance(nf, ast.Lambda) else {p.arg: 1 for p in nf.args.args}
                    if tgt in nb:
                        ok = False
            # every self.<x> in the methods is a known field or method
            for m in methods.values():
                for x in ast.walk(m):
                    if isinstance(x, ast.Attribute) and isinstance(x.value, ast.Name) and x.value.id == 'self' \
                            and x.attr not in fields and x.attr not in methods:
                        ok = False
            if not ok or not uses:
                continue
            # constructor arguments
            ipar = [a.arg for a in init.args.args][1:] if init is not None else []
            if len(val.args) > len(ipar) and not getattr(cls, '_is_dataclass', False):
                continue
            ibind: Dict[str, ast.expr] = dict(zip(ipar, val.args))
            bad = False
            for k in ([] if getattr(cls, '_is_dataclass', False) else val.keywords):
                if k.arg not in ipar or k.arg in ibind:
                    bad = True
                ibind[k.arg] = k.value
            if init is not None:
                defaults = dict(zip(reversed([a.arg for a in init.args.args]), reversed(init.args.defaults)))
                for prm in ipar:
                    if prm not in ibind:
                        if prm not in defaults:
                            bad = True
                        else:
                            ibind[prm] = defaults[prm]
            if bad:
                continue
            pre = f'{tgt}__'

            class Ren(ast.NodeTransformer):
                def __init__(self, recv: str, params: Optional[Dict[str, ast.expr]] = None):
                    self.recv = recv
                    self.params = params or {}

                def visit_Attribute(self, n: ast.Attribute):
                    self.generic_visit(n)
                    if isinstance(n.value, ast.Name) and n.value.id == self.recv and (n.attr in fields or n.attr in methods):
                        return ast.copy_location(ast.Name(id=pre + n.attr, ctx=n.ctx), n)
                    return n

                def visit_Name(self, n: ast.Name):
                    if isinstance(n.ctx, ast.Load) and n.id in self.params:
                        return _clone_expr(self.params[n.id])
                    return n
            new_stmts: List[ast.stmt] = []
            for fname, fval in init_assigns:
                v2 = Ren('self', ibind).visit(_clone_expr(fval))
                a_ = ast.Assign(targets=[ast.Name(id=pre + fname, ctx=ast.Store())], value=v2)
                ast.copy_location(a_, st)
                for y in ast.walk(a_):
                    if not hasattr(y, 'lineno'):
                        ast.copy_location(y, st)
                new_stmts.append(a_)
            for mname, m in methods.items():
                m2 = _clone_expr(m)
                m2.name = pre + mname
                m2.args.args = m2.args.args[1:]
                m2 = Ren('self').visit(m2)
                stored = sorted({x.id for x in ast.walk(m2) if isinstance(x, ast.Name) and isinstance(x.ctx, (ast.Store, ast.Del))
                                 and x.id.startswith(pre) and x.id[len(pre):] in fields})
                if stored:
                    m2.body.insert(0, ast.copy_location(ast.Nonlocal(names=stored), m))
                m2._synthetic = True  # type: ignore[attr-defined]
                for y in ast.walk(m2):
                    if isinstance(y, _FN):
                        y._synthetic = True  # type: ignore[attr-defined]
                ast.fix_missing_locations(m2)
                new_stmts.append(m2)
            fn.body[idx:idx + 1] = new_stmts
            Ren(tgt).visit(fn)
            fn._deobjectified = True  # type: ignore[attr-defined]
            ast.fix_missing_locations(fn)
            set_alias_parents(fn)
            count += 1
            break       # positions in fn.body changed: one object per function and pass
    return count


# ---------------------------------------------------------------------------------------------------
# forward substitution of single-use temporaries ("explaining variables")
# ---------------------------------------------------------------------------------------------------

_PURE = (ast.Name, ast.Constant, ast.Attribute, ast.Load, ast.Store, ast.expr_context, ast.operator, ast.unaryop, ast.cmpop, ast.boolop)


def _eval_order(e: ast.AST) -> List[ast.AST]:
    """Sub-expressions of *e* in evaluation order (post-order, left to right), not entering lambdas/comprehensions."""
    out: List[ast.AST] = []

    def go(n: ast.AST) -> None:
        if isinstance(n, (ast.Lambda, ast.ListComp, ast.SetComp, ast.DictComp, ast.GeneratorExp)):
            out.append(n)
            return
        if isinstance(n, ast.Dict):
            for k, v in zip(n.keys, n.values):
                if k is not None:
                    go(k)
                go(v)
            out.append(n)
            return
        for ch in ast.iter_child_nodes(n):
            if isinstance(ch, (ast.expr_context, ast.operator, ast.unaryop, ast.cmpop, ast.boolop)):
                continue
            go(ch)
        out.append(n)
    go(e)
    return out


def _header_exprs(st: ast.stmt) -> List[ast.AST]:
    """The expressions a statement evaluates first, exactly once, before anything else of it runs."""
    if isinstance(st, ast.Assign):
        return [st.value]          # targets' sub-expressions come after the value; a use there is not substituted
    if isinstance(st, ast.AnnAssign):
        return [st.value] if st.value is not None else []
    if isinstance(st, ast.AugAssign):
        return []
    if isinstance(st, (ast.Return, ast.Expr)):
        return [st.value] if st.value is not None else []
    if isinstance(st, ast.Raise):
        return [st.exc] if st.exc is not None and st.cause is None else []
    # (not `if x:` - a named condition is a flag: the path engine tracks flags, and a helper call assigned to a flag
    # gets its returned constants distributed by the graph builder, which an inlined call in a test would not)
    if isinstance(st, (ast.For, ast.AsyncFor)):
        return [st.iter]
    if isinstance(st, (ast.With, ast.AsyncWith)):
        return [st.items[0].context_expr] if st.items else []
    return []


def forward_substitute(tree: ast.Module) -> int:
    """`x = E` immediately followed by a statement whose header expression uses `x` exactly once - with nothing but
    pure look-ups evaluated before that use - and `x` read nowhere else: the use is replaced by `E` and the assignment
    dropped.  Evaluation order and values are unchanged; rules see `await f(...)` whether or not the coroutine, the
    task or the condition was given a name first."""
    total = 0
    defined = {n.name for n in ast.walk(tree) if isinstance(n, _FN)}

    def helper_call(v: ast.AST) -> bool:
        """a call of a function / private method of this module: the graph builder may expand it in place and hand
        each of its returned values to the assignment target - which needs the target"""
        c = v.value if isinstance(v, ast.Await) else v
        if not isinstance(c, ast.Call):
            return False
        f = c.func
        if isinstance(f, ast.Name):
            return f.id in defined
        return isinstance(f, ast.Attribute) and isinstance(f.value, ast.Name) and f.value.id in ('self', 'cls') and f.attr in defined
    for fn in [n for n in ast.walk(tree) if isinstance(n, _FN)]:
        changed = True
        rounds = 0
        while changed and rounds < 8:
            changed = False
            rounds += 1
            # all loads / bindings of names in the function (nested scopes included: a closure may read the name later)
            loads: Dict[str, int] = {}
            for x in ast.walk(fn):
                if isinstance(x, ast.Name) and isinstance(x.ctx, ast.Load):
                    loads[x.id] = loads.get(x.id, 0) + 1
            declared = {nm for x in ast.walk(fn) if isinstance(x, (ast.Global, ast.Nonlocal)) for nm in x.names}
            params = {p.arg for f2 in ast.walk(fn) if isinstance(f2, _FN + (ast.Lambda,)) for p in
                      f2.args.posonlyargs + f2.args.args + f2.args.kwonlyargs + ([f2.args.vararg] if f2.args.vararg else []) + ([f2.args.kwarg] if f2.args.kwarg else [])}
            # candidate pairs per name
            pairs: Dict[str, List[Tuple[list, int, ast.AST, ast.Name]]] = {}
            for node in ast.walk(fn):
                for field in ('body', 'orelse', 'finalbody'):
                    body = getattr(node, field, None)
                    if not isinstance(body, list) or not body or not isinstance(body[0], ast.stmt):
                        continue
                    if isinstance(node, ast.ClassDef):
                        continue
                    for i in range(len(body) - 1):
                        st, nx = body[i], body[i + 1]
                        if isinstance(st, ast.Assign) and len(st.targets) == 1 and isinstance(st.targets[0], ast.Name):
                            name, val = st.targets[0].id, st.value
                        elif isinstance(st, ast.AnnAssign) and isinstance(st.target, ast.Name) and st.value is not None:
                            name, val = st.target.id, st.value
                        else:
                            continue
                        if name in declared or name in params or isinstance(val, (ast.Yield, ast.YieldFrom)) or helper_call(val):
                            continue
                        if any(isinstance(x, (ast.Yield, ast.YieldFrom, ast.NamedExpr)) for x in ast.walk(val)):
                            continue
                        if any(isinstance(x, ast.Name) and x.id == name for x in ast.walk(val)):
                            continue
                        hdr = _header_exprs(nx)
                        if len(hdr) != 1:
                            continue
                        order = _eval_order(hdr[0])
                        uses = [x for x in order if isinstance(x, ast.Name) and x.id == name and isinstance(x.ctx, ast.Load)]
                        if len(uses) != 1:
                            continue
                        # the name must not occur anywhere else in the next statement (targets, bodies, lambdas)
                        if sum(1 for x in ast.walk(nx) if isinstance(x, ast.Name) and x.id == name) != 1:
                            continue
                        before = order[:order.index(uses[0])]
                        if any(not isinstance(x, _PURE) for x in before):
                            continue
                        # inside a short-circuit / conditional the use might not be evaluated at all, or later
                        guarded = False
                        p_ = getattr(uses[0], '_alias_parent', None)
                        ch_ = uses[0]
                        while p_ is not None and p_ is not nx:
                            if isinstance(p_, ast.BoolOp) and p_.values[0] is not ch_:
                                guarded = True
                            if isinstance(p_, ast.IfExp) and p_.test is not ch_:
                                guarded = True
                            if isinstance(p_, ast.Compare) and p_.left is not ch_ and len(p_.ops) > 1:
                                guarded = True
                            ch_, p_ = p_, getattr(p_, '_alias_parent', None)
                        if guarded:
                            continue
                        # a name used as the receiver of an attribute access or as the callee is a handle on an object
                        # (a pool, a future, a batcher), not an explaining variable: keep it
                        p0 = getattr(uses[0], '_alias_parent', None)
                        if (isinstance(p0, ast.Attribute) and p0.value is uses[0]) or (isinstance(p0, ast.Call) and p0.func is uses[0]):
                            continue
                        pairs.setdefault(name, []).append((body, i, val, uses[0]))
            for name, ps in pairs.items():
                if loads.get(name, 0) != len(ps):
                    continue        # read somewhere else too
                # bindings other than these assignments (loop targets, with-as, augmented ...) make the name more than a temporary
                binds = sum(1 for x in ast.walk(fn) if isinstance(x, ast.Name) and x.id == name and isinstance(x.ctx, (ast.Store, ast.Del)))
                if binds != len(ps):
                    continue
                for body, i, val, use in sorted(ps, key=lambda t: -t[1]):
                    st = body[i]
                    if body[i] is not st or i + 1 >= len(body):
                        continue
                    par = getattr(use, '_alias_parent', None)
                    if par is None:
                        continue
                    done = False
                    for f_, v_ in ast.iter_fields(par):
                        if v_ is use:
                            setattr(par, f_, val)
                            done = True
                        elif isinstance(v_, list):
                            for k_, item in enumerate(v_):
                                if item is use:
                                    v_[k_] = val
                                    done = True
                    if done:
                        del body[i]
                        total += 1
                        changed = True
                        # the innermost function that owned the temporary loses a local
                        owner = getattr(st, '_alias_parent', None)
                        while owner is not None and not isinstance(owner, _FN):
                            owner = getattr(owner, '_alias_parent', None)
                        if owner is not None:
                            rm = getattr(owner, '_removed_locals', None)
                            if rm is None:
                                rm = set()
                                owner._removed_locals = rm  # type: ignore[attr-defined]
                            rm.add(name)
                if changed:
                    set_alias_parents(fn)
                    break      # indices moved: recompute
    return total


def inline_exception_tuples(tree: ast.Module) -> int:
    """`_STOP = (TimeoutError, CancelledError)` at module level and `except _STOP:` -> `except (TimeoutError, CancelledError):`
    (the constant must be assigned exactly once, to a tuple of plain class references)."""
    consts: Dict[str, ast.Tuple] = {}
    counts: Dict[str, int] = {}
    for n in ast.walk(tree):
        if isinstance(n, ast.Name) and isinstance(n.ctx, (ast.Store, ast.Del)):
            counts[n.id] = counts.get(n.id, 0) + 1
    for st in tree.body:
        tgt = val = None
        if isinstance(st, ast.Assign) and len(st.targets) == 1 and isinstance(st.targets[0], ast.Name):
            tgt, val = st.targets[0].id, st.value
        elif isinstance(st, ast.AnnAssign) and isinstance(st.target, ast.Name) and st.value is not None:
            tgt, val = st.target.id, st.value
        if tgt and isinstance(val, ast.Tuple) and val.elts and counts.get(tgt, 0) == 1 \
                and all(isinstance(e, (ast.Name, ast.Attribute)) for e in val.elts):
            consts[tgt] = val
    n_ = 0
    # class-level constants `_flush_on = (TimeoutError, CancelledError)` used as `except self._flush_on:` in the methods
    # of that class: usable when the attribute name is bound once in the whole module (no instance / subclass override)
    attr_stores: Dict[str, int] = {}
    for n in ast.walk(tree):
        if isinstance(n, ast.Attribute) and isinstance(n.ctx, (ast.Store, ast.Del)):
            attr_stores[n.attr] = attr_stores.get(n.attr, 0) + 1
    for c in ast.walk(tree):
        if not isinstance(c, ast.ClassDef):
            continue
        cconsts: Dict[str, ast.Tuple] = {}
        for st in c.body:
            tgt = val = None
            if isinstance(st, ast.Assign) and len(st.targets) == 1 and isinstance(st.targets[0], ast.Name):
                tgt, val = st.targets[0].id, st.value
            elif isinstance(st, ast.AnnAssign) and isinstance(st.target, ast.Name) and st.value is not None:
                tgt, val = st.target.id, st.value
            if tgt and isinstance(val, ast.Tuple) and val.elts and all(isinstance(e, (ast.Name, ast.Attribute)) for e in val.elts):
                n_class_bindings = sum(1 for c2 in ast.walk(tree) if isinstance(c2, ast.ClassDef) for st2 in c2.body
                                       for t2 in ((st2.targets if isinstance(st2, ast.Assign) else [st2.target] if isinstance(st2, ast.AnnAssign) else []))
                                       if isinstance(t2, ast.Name) and t2.id == tgt)
                if n_class_bindings == 1 and attr_stores.get(tgt, 0) == 0:
                    cconsts[tgt] = val
        if not cconsts:
            continue
        for h in ast.walk(c):
            if isinstance(h, ast.ExceptHandler) and isinstance(h.type, ast.Attribute) and h.type.attr in cconsts \
                    and isinstance(h.type.value, ast.Name) and h.type.value.id in ('self', 'cls', c.name):
                new = _clone_expr(cconsts[h.type.attr])
                for y in ast.walk(new):
                    ast.copy_location(y, h.type)
                h.type = new
                n_ += 1
    for h in ast.walk(tree):
        if isinstance(h, ast.ExceptHandler) and isinstance(h.type, ast.Name) and h.type.id in consts:
            new = _clone_expr(consts[h.type.id])
            for y in ast.walk(new):
                ast.copy_location(y, h.type)
            h.type = new
            n_ += 1
    # a local of a function bound once (in the whole module, outside loops) to such a tuple, hoisted out of a loop by hand
    # (`flush_on = (TimeoutError, CancelledError)` ... `except flush_on:`): the handlers inside that function
    for fn in [x for x in ast.walk(tree) if isinstance(x, _FN)]:
        lconsts: Dict[str, ast.Tuple] = {}
        for st in _own(fn):
            if isinstance(st, ast.Assign) and len(st.targets) == 1 and isinstance(st.targets[0], ast.Name) and isinstance(st.value, ast.Tuple) \
                    and st.value.elts and all(isinstance(e, (ast.Name, ast.Attribute)) for e in st.value.elts) \
                    and counts.get(st.targets[0].id, 0) == 1 and not _in_loop(fn, st):
                lconsts[st.targets[0].id] = st.value
        if not lconsts:
            continue
        for h in ast.walk(fn):
            if isinstance(h, ast.ExceptHandler) and isinstance(h.type, ast.Name) and h.type.id in lconsts:
                new = _clone_expr(lconsts[h.type.id])
                for y in ast.walk(new):
                    ast.copy_location(y, h.type)
                h.type = new
                n_ += 1
    return n_


def _stable_names(fn: ast.AST) -> Set[str]:
    """Parameters of *fn* that are never re-bound and locals bound exactly once (assignment or def) in its own body,
    not written by nested functions."""
    bound = _bound_names(fn)
    out = {n for n, k in bound.items() if k == 1}
    for nf in ast.walk(fn):
        if nf is not fn and isinstance(nf, _FN):
            for x in ast.walk(nf):
                if isinstance(x, (ast.Nonlocal, ast.Global)):
                    out -= set(x.names)
    return out


def project_stable_records(tree: ast.Module) -> int:
    """`opts = (sep, parse, parse_keys)` (bound once, elements are stable names of the same function) makes `opts[1]` another
    spelling of `parse` - in the function and in the closures that capture `opts`."""
    count = 0
    for fn in [n for n in ast.walk(tree) if isinstance(n, _FN)]:
        stable = _stable_names(fn)
        recs: Dict[str, ast.Tuple] = {}
        for n in _own(fn):
            if isinstance(n, (ast.Assign, ast.AnnAssign)) and getattr(n, 'value', None) is not None:
                tg = n.targets[0] if isinstance(n, ast.Assign) and len(n.targets) == 1 else getattr(n, 'target', None)
                if isinstance(tg, ast.Name) and tg.id in stable and isinstance(n.value, ast.Tuple) and n.value.elts \
                        and all(isinstance(e, ast.Name) and e.id in stable and e.id != tg.id for e in n.value.elts) and not _in_loop(fn, n):
                    recs[tg.id] = n.value
        if not recs:
            continue
        # names re-bound by nested scopes shadow the record / its elements there: stay out of those scopes
        def rewrite(node, shadow: Set[str]):
            nonlocal count
            for f_, v_ in ast.iter_fields(node):
                items = v_ if isinstance(v_, list) else [v_]
                for i_, ch in enumerate(items):
                    if not isinstance(ch, ast.AST):
                        continue
                    if isinstance(ch, _FN + (ast.Lambda,)) and ch is not fn:
                        if isinstance(ch, ast.Lambda):
                            a = ch.args
                            inner = {p_.arg for p_ in a.posonlyargs + a.args + a.kwonlyargs}
                        else:
                            inner = set(_bound_names(ch))
                        rewrite(ch, shadow | inner)
                        continue
                    if isinstance(ch, ast.Subscript) and isinstance(ch.ctx, ast.Load) and isinstance(ch.value, ast.Name) and ch.value.id in recs \
                            and ch.value.id not in shadow and isinstance(ch.slice, ast.Constant) and isinstance(ch.slice.value, int) \
                            and not isinstance(ch.slice.value, bool) and -len(recs[ch.value.id].elts) <= ch.slice.value < len(recs[ch.value.id].elts):
                        el = recs[ch.value.id].elts[ch.slice.value]
                        if el.id not in shadow:
                            new = ast.Name(id=el.id, ctx=ast.Load())
                            ast.copy_location(new, ch)
                            new._projected_from = ch.value.id  # type: ignore[attr-defined]
                            if isinstance(v_, list):
                                v_[i_] = new
                            else:
                                setattr(node, f_, new)
                            count += 1
                            continue
                    rewrite(ch, shadow)
        rewrite(fn, set())
    return count


def nest_private_helpers(tree: ast.Module) -> int:
    """A private module-level function that only one top-level function F uses (calls it, or binds it with
    functools.partial, in F or in F's nested functions) and that receives, for some parameter, always the same stable
    variable of F is the closure it was extracted from: the parameter becomes that free variable and the definition
    moves back into F (`_try_parse(x, opts)` called as `_try_parse(key, opts)` everywhere -> nested `_try_parse(x)`)."""
    count = 0
    tops = [st for st in tree.body if isinstance(st, _FN)]
    by_name = {}
    for st in tops:
        by_name.setdefault(st.name, []).append(st)
    for G in list(tops):
        if not G.name.startswith('_') or G.name.startswith('__') or len(by_name[G.name]) != 1 or G.decorator_list:
            continue
        a = G.args
        if a.vararg or a.kwarg or a.posonlyargs:
            continue
        # every reference
        refs = [n for n in ast.walk(tree) if isinstance(n, ast.Name) and n.id == G.name and isinstance(n.ctx, ast.Load)]
        if not refs or any(isinstance(n, ast.Name) and n.id == G.name and isinstance(n.ctx, (ast.Store, ast.Del)) for n in ast.walk(tree)):
            continue
        hosts = set()
        ok = True
        uses = []       # (kind, call node) kind in {'call', 'partial'}
        for r_ in refs:
            top = r_
            while getattr(top, '_alias_parent', None) is not None and not isinstance(getattr(top, '_alias_parent'), ast.Module):
                top = top._alias_parent
            if not isinstance(top, _FN) or top is G:
                ok = False
                break
            hosts.add(id(top))
            par = getattr(r_, '_alias_parent', None)
            if isinstance(par, ast.Call) and par.func is r_:
                uses.append(('call', par))
            elif isinstance(par, ast.Call) and par.args and par.args[0] is r_ and ast.unparse(par.func).split('.')[-1] == 'partial':
                uses.append(('partial', par))
            else:
                ok = False
                break
        if not ok or len(hosts) != 1:
            continue
        F = next(t for t in tops if id(t) in hosts)
        if any(isinstance(x, (ast.Global, ast.Nonlocal)) for x in ast.walk(G)):
            continue
        stable = _stable_names(F)
        params = [x.arg for x in a.args] + [x.arg for x in a.kwonlyargs]
        pos_params = [x.arg for x in a.args]
        bound_to: Dict[str, Set[str]] = {p_: set() for p_ in params}
        usable = True
        for kind, c in uses:
            args_ = c.args if kind == 'call' else c.args[1:]
            if any(isinstance(x, ast.Starred) for x in args_) or any(k.arg is None for k in c.keywords):
                usable = False
                break
            seen_here: Set[str] = set()
            for i_, x in enumerate(args_):
                if i_ >= len(pos_params):
                    usable = False
                    break
                bound_to[pos_params[i_]].add(x.id if isinstance(x, ast.Name) else '<expr>')
                seen_here.add(pos_params[i_])
            for k in c.keywords:
                if k.arg not in bound_to:
                    usable = False
                    break
                bound_to[k.arg].add(k.value.id if isinstance(k.value, ast.Name) else '<expr>')
                seen_here.add(k.arg)
            for p_ in params:
                if p_ not in seen_here:
                    bound_to[p_].add('<unbound>')
        if not usable:
            continue
        g_bound = _bound_names(G)
        first_ref = min(getattr(r_, 'lineno', 0) for r_ in refs)
        f_bound = _bound_names(F)

        def settled(v: str) -> bool:
            """every binding of v in F is a plain statement of F's own body (def / assignment, outside loops) that comes
            before the first reference to the helper: whenever the helper runs, v has its final value"""
            if v in stable:
                return True
            sites = []
            for n_ in _own(F):
                if isinstance(n_, _FN) and n_.name == v:
                    sites.append(n_)
                elif isinstance(n_, ast.Name) and n_.id == v and isinstance(n_.ctx, ast.Store):
                    sites.append(n_)
                elif isinstance(n_, ast.Name) and n_.id == v and isinstance(n_.ctx, ast.Del):
                    return False
            if not sites or len(sites) != f_bound.get(v, 0):
                return False
            for nf in ast.walk(F):
                if nf is not F and isinstance(nf, _FN) and any(isinstance(x, (ast.Nonlocal, ast.Global)) and v in x.names for x in ast.walk(nf)):
                    return False
            return all(getattr(s_, 'end_lineno', getattr(s_, 'lineno', 10 ** 9)) < first_ref and not _in_loop(F, s_) for s_ in sites)
        closure = {}
        for p_ in params:
            vs = bound_to[p_]
            if len(vs) == 1:
                v = next(iter(vs))
                if v not in ('<expr>', '<unbound>') and settled(v) and g_bound.get(p_, 0) == 1 and (v == p_ or v not in g_bound):
                    closure[p_] = v
        # positional parameters can only be dropped from the end backwards or by keyword use; keep it simple: a closure
        # parameter must be passed by keyword everywhere or be the last positional ones
        if not closure or len(closure) == len(params):
            continue        # (a helper whose every parameter is context is a plain function of that context: nothing to gain)
        keep_pos = [p_ for p_ in pos_params if p_ not in closure]
        # positional closure parameters must come after every kept positional parameter
        idx = [i for i, p_ in enumerate(pos_params) if p_ in closure]
        if idx and min(idx) < len(keep_pos):
            # would shift positions of kept parameters: only allowed if every use passes the kept ones positionally before it
            continue
        # a partial use must be left with no bound arguments (then it is the function itself)
        for kind, c in uses:
            if kind == 'partial':
                rest_pos = [x for i_, x in enumerate(c.args[1:]) if pos_params[i_] not in closure]
                rest_kw = [k for k in c.keywords if k.arg not in closure]
                if rest_pos or rest_kw:
                    usable = False
        if not usable:
            continue
        # nested functions of G that re-bind a captured name would change meaning
        if any(isinstance(x, _FN + (ast.Lambda,)) for x in ast.walk(G) if x is not G):
            continue
        # 1. rewrite G: drop the parameters, rename their loads
        ren = {p_: v for p_, v in closure.items() if p_ != v}
        for x in ast.walk(G):
            if isinstance(x, ast.Name) and x.id in ren:
                x.id = ren[x.id]
        ndef = len(a.defaults)
        pos_defaults = dict(zip(reversed(pos_params), reversed(a.defaults)))
        a.args = [x for x in a.args if x.arg not in closure]
        a.defaults = [pos_defaults[x.arg] for x in a.args if x.arg in pos_defaults]
        kd = [(x, d) for x, d in zip(a.kwonlyargs, a.kw_defaults) if x.arg not in closure]
        a.kwonlyargs = [x for x, _ in kd]
        a.kw_defaults = [d for _, d in kd]
        # 2. rewrite the uses
        for kind, c in uses:
            if kind == 'call':
                c.args = [x for i_, x in enumerate(c.args) if pos_params[i_] not in closure]
                c.keywords = [k for k in c.keywords if k.arg not in closure]
            else:
                par = getattr(c, '_alias_parent', None)
                new = ast.Name(id=G.name, ctx=ast.Load())
                ast.copy_location(new, c)
                for f_, v_ in ast.iter_fields(par):
                    if v_ is c:
                        setattr(par, f_, new)
                    elif isinstance(v_, list):
                        for i_, y in enumerate(v_):
                            if y is c:
                                v_[i_] = new
        # 3. move the definition into F (after the docstring)
        tree.body.remove(G)
        pos_ins = 1 if (F.body and isinstance(F.body[0], ast.Expr) and isinstance(F.body[0].value, ast.Constant)) else 0
        F.body.insert(pos_ins, G)
        G._synthetic = True        # type: ignore[attr-defined]  (not a child of F in the compiler's symbol table)
        G._nested_from_module = True  # type: ignore[attr-defined]
        F._added_locals = set(getattr(F, '_added_locals', set())) | {G.name}  # type: ignore[attr-defined]
        count += 1
        set_alias_parents(tree)
    return count


def split_ifexp_assign(tree: ast.Module) -> int:
    """`x = A if T else B` -> `if T: x = A` / `else: x = B` for a plain local name x (T is evaluated once, then exactly one of
    A, B, then the store - as in the statement form); a branch that would be the no-op `x = x` is dropped."""
    count = 0
    for node in ast.walk(tree):
        for field in ('body', 'orelse', 'finalbody'):
            body = getattr(node, field, None)
            if not isinstance(body, list):
                continue
            for i, st in enumerate(body):
                tg = v = None
                if isinstance(st, ast.Assign) and len(st.targets) == 1:
                    tg, v = st.targets[0], st.value
                elif isinstance(st, ast.AnnAssign) and st.value is not None:
                    tg, v = st.target, st.value
                if not (isinstance(tg, ast.Name) and isinstance(v, ast.IfExp)):
                    continue

                def arm(val: ast.AST) -> List[ast.stmt]:
                    if isinstance(val, ast.Name) and val.id == tg.id:
                        return []
                    a = ast.Assign(targets=[ast.Name(id=tg.id, ctx=ast.Store())], value=val)
                    ast.copy_location(a, st)
                    ast.copy_location(a.targets[0], tg)
                    return [a]
                b1, b2 = arm(v.body), arm(v.orelse)
                new = ast.If(test=v.test, body=b1 or [ast.copy_location(ast.Pass(), st)], orelse=b2)
                ast.copy_location(new, st)
                new._from_ifexp = True  # type: ignore[attr-defined]
                body[i] = new
                count += 1
    return count


def fold_unpassed_defaults(tree: ast.Module) -> int:
    """A parameter with a constant default of a *private* function (nested function, module-level `_f`, method `_m`) that
    no call in the module ever passes - and the function is never used as a value, so there are no other callers - is
    that constant.  An `if` whose test is `p is None` / `p is not None` / `p` / `not p`, reached before `p` is re-bound,
    is replaced by the branch taken (`def _arm(self, coro, *, _timeout=None): if _timeout is None: _timeout = self.timeout`)."""
    count = 0
    fns = [n for n in ast.walk(tree) if isinstance(n, _FN)]
    # how each function name is used
    by_name: Dict[str, List[ast.AST]] = {}
    for f in fns:
        by_name.setdefault(f.name, []).append(f)
    for f in fns:
        if not f.name.startswith('_') or (f.name.startswith('__') and f.name.endswith('__')):
            continue
        if len(by_name[f.name]) != 1 or f.decorator_list and any(ast.unparse(d).split('.')[-1] not in ('staticmethod',) for d in f.decorator_list):
            continue
        a = f.args
        if a.vararg or a.kwarg:
            continue
        pos = [x.arg for x in a.posonlyargs + a.args]
        is_method = isinstance(getattr(f, '_alias_parent', None), ast.ClassDef) and not any(ast.unparse(d) == 'staticmethod' for d in f.decorator_list)
        defaults: Dict[str, ast.AST] = {}
        for nm, d in zip(reversed(pos), reversed(a.defaults)):
            defaults[nm] = d
        for kw, d in zip(a.kwonlyargs, a.kw_defaults):
            if d is not None:
                defaults[kw.arg] = d
        defaults = {k: v for k, v in defaults.items() if isinstance(v, ast.Constant) and (v.value is None or isinstance(v.value, (bool, int, float, str)))}
        if not defaults:
            continue
        # every reference to the name must be the callee of a call
        passed: Set[str] = set()
        ok = True
        for n in ast.walk(tree):
            ref = None
            if isinstance(n, ast.Name) and n.id == f.name and isinstance(n.ctx, ast.Load):
                ref = n
            elif isinstance(n, ast.Attribute) and n.attr == f.name and isinstance(n.ctx, ast.Load):
                ref = n
            if ref is None:
                continue
            par = getattr(ref, '_alias_parent', None)
            if not (isinstance(par, ast.Call) and par.func is ref):
                ok = False
                break
            if any(isinstance(x, ast.Starred) for x in par.args) or any(k.arg is None for k in par.keywords):
                ok = False
                break
            off = 1 if (is_method and isinstance(ref, ast.Attribute)) else 0
            for i, _x in enumerate(par.args):
                if i + off < len(pos):
                    passed.add(pos[i + off])
            for k in par.keywords:
                passed.add(k.arg)
        if not ok:
            continue
        consts = {k: v for k, v in defaults.items() if k not in passed}
        if not consts:
            continue
        # nested functions that re-bind the name disqualify it
        for nf in ast.walk(f):
            if nf is not f and isinstance(nf, _FN + (ast.Lambda,)):
                for x in ast.walk(nf):
                    if isinstance(x, (ast.Nonlocal,)):
                        for nm in x.names:
                            consts.pop(nm, None)
        if not consts:
            continue
        rebound: Set[str] = set()
        new_body: List[ast.stmt] = []
        changed = False
        for st in f.body:
            if isinstance(st, ast.If):
                t = st.test
                nm = None
                truth = None
                if isinstance(t, ast.Compare) and len(t.ops) == 1 and isinstance(t.left, ast.Name) and isinstance(t.ops[0], (ast.Is, ast.IsNot)) \
                        and isinstance(t.comparators[0], ast.Constant) and t.comparators[0].value is None:
                    nm = t.left.id
                    if nm in consts and nm not in rebound:
                        truth = (consts[nm].value is None) == isinstance(t.ops[0], ast.Is)
                elif isinstance(t, ast.Name):
                    nm = t.id
                    if nm in consts and nm not in rebound:
                        truth = bool(consts[nm].value)
                elif isinstance(t, ast.UnaryOp) and isinstance(t.op, ast.Not) and isinstance(t.operand, ast.Name):
                    nm = t.operand.id
                    if nm in consts and nm not in rebound:
                        truth = not bool(consts[nm].value)
                if truth is not None:
                    taken = st.body if truth else st.orelse
                    new_body.extend(taken)
                    changed = True
                    count += 1
                    for x in taken:
                        for y in ast.walk(x):
                            if isinstance(y, ast.Name) and isinstance(y.ctx, (ast.Store, ast.Del)):
                                rebound.add(y.id)
                    continue
            for y in ast.walk(st):
                if isinstance(y, ast.Name) and isinstance(y.ctx, (ast.Store, ast.Del)):
                    rebound.add(y.id)
            new_body.append(st)
        if changed:
            f.body[:] = new_body or [ast.copy_location(ast.Pass(), f)]
    return count


def inline_module_partials(tree: ast.Module) -> int:
    """`_consume = partial(deque, maxlen=0)` at module level (assigned once): a call `_consume(x)` is `deque(x, maxlen=0)`."""
    counts: Dict[str, int] = {}
    for n in ast.walk(tree):
        if isinstance(n, ast.Name) and isinstance(n.ctx, (ast.Store, ast.Del)):
            counts[n.id] = counts.get(n.id, 0) + 1
        elif isinstance(n, _FN + (ast.ClassDef,)):
            counts[n.name] = counts.get(n.name, 0) + 1
    parts: Dict[str, ast.Call] = {}
    for st in tree.body:
        tgt = val = None
        if isinstance(st, ast.Assign) and len(st.targets) == 1 and isinstance(st.targets[0], ast.Name):
            tgt, val = st.targets[0].id, st.value
        elif isinstance(st, ast.AnnAssign) and isinstance(st.target, ast.Name) and st.value is not None:
            tgt, val = st.target.id, st.value
        if tgt and counts.get(tgt, 0) == 1 and isinstance(val, ast.Call) and ast.unparse(val.func).split('.')[-1] == 'partial' \
                and val.args and isinstance(val.args[0], (ast.Name, ast.Attribute)) \
                and not any(isinstance(a, ast.Starred) for a in val.args) and not any(k.arg is None for k in val.keywords):
            parts[tgt] = val
    if not parts:
        return 0
    n_ = 0
    for c in ast.walk(tree):
        if isinstance(c, ast.Call) and isinstance(c.func, ast.Name) and c.func.id in parts:
            pv = parts[c.func.id]
            given = {k.arg for k in c.keywords}
            c.func = _clone_expr(pv.args[0])
            c.args = [_clone_expr(a) for a in pv.args[1:]] + list(c.args)
            c.keywords = [ast.keyword(arg=k.arg, value=_clone_expr(k.value)) for k in pv.keywords if k.arg not in given] + list(c.keywords)
            for y in ast.walk(c):
                if not hasattr(y, 'lineno'):
                    ast.copy_location(y, c)
            n_ += 1
    return n_


# ---------------------------------------------------------------------------
# match statements  ->  if / elif chains
# ---------------------------------------------------------------------------

class _NoMatchDesugar(Exception):
    pass


#: synthetic match temporaries whose value is evidently a bool (comparison, not, predicate call)
_BOOL_TEMPS: Set[str] = set()
_PREDICATES = {'done', 'cancelled', 'empty', 'full', 'locked', 'closed', 'exists', 'startswith', 'endswith', 'isidentifier', 'isdigit'}


def _evidently_bool(e: ast.expr) -> bool:
    if isinstance(e, ast.Compare):
        return True
    if isinstance(e, ast.UnaryOp) and isinstance(e.op, ast.Not):
        return True
    if isinstance(e, ast.BoolOp):
        return all(_evidently_bool(v) for v in e.values)
    if isinstance(e, ast.Constant):
        return isinstance(e.value, bool)
    if isinstance(e, ast.Call):
        f = e.func
        if isinstance(f, ast.Name):
            return f.id in ('isinstance', 'issubclass', 'callable', 'hasattr', 'bool', 'any', 'all')
        if isinstance(f, ast.Attribute):
            return f.attr.startswith(('is_', 'has_', 'is')) and (f.attr.startswith(('is_', 'has_')) or f.attr in _PREDICATES) or f.attr in _PREDICATES
    return False


_SELF_MATCH_BUILTINS = {'bool', 'bytearray', 'bytes', 'dict', 'float', 'frozenset', 'int', 'list', 'set', 'str', 'tuple'}


def _pattern(pat: ast.pattern, subj: ast.expr, hint=None):
    """(test expression or None when the pattern cannot fail, [(name, value expression)] it binds).  *hint* = (n, nullable)
    says that the subject is known to be a tuple of n items (or None, when nullable): a value read from a table that only
    ever receives n-tuples."""
    import copy

    def S():
        return copy.deepcopy(subj)
    if isinstance(pat, ast.MatchValue):
        return ast.Compare(left=S(), ops=[ast.Eq()], comparators=[pat.value]), []
    if isinstance(pat, ast.MatchSingleton):
        if isinstance(pat.value, bool) and isinstance(subj, ast.Name) and subj.id in _BOOL_TEMPS:
            # the subject is a synthetic local holding an evidently boolean value: `is True` is the value itself
            return (S() if pat.value else ast.UnaryOp(op=ast.Not(), operand=S())), []
        return ast.Compare(left=S(), ops=[ast.Is()], comparators=[ast.Constant(value=pat.value)]), []
    if isinstance(pat, ast.MatchAs):
        if pat.pattern is None:
            return None, ([(pat.name, S())] if pat.name else [])
        t, b = _pattern(pat.pattern, subj, hint)
        return t, b + [(pat.name, S())]
    if isinstance(pat, ast.MatchOr):
        tests = []
        for q in pat.patterns:
            t, b = _pattern(q, subj, hint)
            if b:
                raise _NoMatchDesugar('capture inside an or-pattern')
            if t is None:
                return None, []
            tests.append(t)
        return ast.BoolOp(op=ast.Or(), values=tests), []
    if isinstance(pat, ast.MatchSequence):
        if any(isinstance(q, ast.MatchStar) for q in pat.patterns):
            raise _NoMatchDesugar('star pattern')
        n = len(pat.patterns)
        tests, binds = [], []
        if isinstance(subj, (ast.Tuple, ast.List)) and len(subj.elts) == n and not any(isinstance(e, ast.Starred) for e in subj.elts):
            parts = list(subj.elts)
        elif isinstance(subj, (ast.Tuple, ast.List)):
            return ast.Constant(value=False), []
        elif hint is not None and hint[0] == n:
            if hint[1]:
                tests.append(ast.Compare(left=S(), ops=[ast.IsNot()], comparators=[ast.Constant(value=None)]))
            parts = [ast.Subscript(value=S(), slice=ast.Constant(value=i), ctx=ast.Load()) for i in range(n)]
        else:
            tests.append(ast.Call(func=ast.Name(id='isinstance', ctx=ast.Load()),
                                  args=[S(), ast.Tuple(elts=[ast.Name(id='tuple', ctx=ast.Load()), ast.Name(id='list', ctx=ast.Load())], ctx=ast.Load())],
                                  keywords=[]))
            tests.append(ast.Compare(left=ast.Call(func=ast.Name(id='len', ctx=ast.Load()), args=[S()], keywords=[]), ops=[ast.Eq()],
                                     comparators=[ast.Constant(value=n)]))
            parts = [ast.Subscript(value=S(), slice=ast.Constant(value=i), ctx=ast.Load()) for i in range(n)]
        for q, part in zip(pat.patterns, parts):
            t, b = _pattern(q, part)
            if t is not None:
                tests.append(t)
            binds += b
        if not tests:
            return None, binds
        return (tests[0] if len(tests) == 1 else ast.BoolOp(op=ast.And(), values=tests)), binds
    if isinstance(pat, ast.MatchClass):
        tests = [ast.Call(func=ast.Name(id='isinstance', ctx=ast.Load()), args=[S(), pat.cls], keywords=[])]
        binds = []
        if pat.patterns:
            if not (len(pat.patterns) == 1 and isinstance(pat.cls, ast.Name) and pat.cls.id in _SELF_MATCH_BUILTINS):
                raise _NoMatchDesugar('positional class pattern')
            t, b = _pattern(pat.patterns[0], subj)
            if t is not None:
                tests.append(t)
            binds += b
        for attr, q in zip(pat.kwd_attrs, pat.kwd_patterns):
            t, b = _pattern(q, ast.Attribute(value=S(), attr=attr, ctx=ast.Load()))
            tests.append(ast.Call(func=ast.Name(id='hasattr', ctx=ast.Load()), args=[S(), ast.Constant(value=attr)], keywords=[]))
            if t is not None:
                tests.append(t)
            binds += b
        return (tests[0] if len(tests) == 1 else ast.BoolOp(op=ast.And(), values=tests)), binds
    raise _NoMatchDesugar(type(pat).__name__)


def desugar_match(tree: ast.Module) -> int:
    """`match subject: case ...` as the if / elif chain it stands for (literal, singleton, capture, wildcard, or-, sequence- and
    simple class patterns; guards).  The subject is evaluated once (into a synthetic local when it is not a name, a constant or
    a display of those).  A match statement with a pattern outside this fragment is left alone (the graph builder then refuses
    the function: analysis error, never a silent pass)."""
    count = [0]
    fresh = [0]
    _BOOL_TEMPS.clear()
    # tables (dict-valued names) that only ever receive tuple displays of one arity through subscript stores, and are
    # filled in no other way
    arity: Dict[str, Set[int]] = {}
    opaque: Set[str] = set()
    for n_ in ast.walk(tree):
        if isinstance(n_, ast.Assign):
            for t_ in n_.targets:
                if isinstance(t_, ast.Subscript) and isinstance(t_.value, ast.Name):
                    v_ = n_.value
                    if isinstance(v_, ast.Tuple) and not any(isinstance(e_, ast.Starred) for e_ in v_.elts):
                        arity.setdefault(t_.value.id, set()).add(len(v_.elts))
                    else:
                        opaque.add(t_.value.id)
        elif isinstance(n_, ast.AugAssign) and isinstance(n_.target, ast.Subscript) and isinstance(n_.target.value, ast.Name):
            opaque.add(n_.target.value.id)
        elif isinstance(n_, ast.Call) and isinstance(n_.func, ast.Attribute) and isinstance(n_.func.value, ast.Name) \
                and n_.func.attr in ('setdefault', 'update', '__setitem__'):
            opaque.add(n_.func.value.id)

    def table_hint(e):
        if isinstance(e, ast.Call) and isinstance(e.func, ast.Attribute) and e.func.attr == 'get' and len(e.args) == 1 and not e.keywords \
                and isinstance(e.func.value, ast.Name):
            nm, nullable = e.func.value.id, True
        elif isinstance(e, ast.Subscript) and isinstance(e.value, ast.Name) and not isinstance(e.slice, ast.Slice):
            nm, nullable = e.value.id, False
        else:
            return None
        if nm in opaque or len(arity.get(nm, ())) != 1:
            return None
        return (next(iter(arity[nm])), nullable)

    def simple(e) -> bool:
        return isinstance(e, (ast.Name, ast.Constant)) or (isinstance(e, (ast.Tuple, ast.List)) and all(simple(x) for x in e.elts))

    class R(ast.NodeTransformer):
        def __init__(self):
            self.fn = []

        def visit_FunctionDef(self, node):
            self.fn.append(node)
            self.generic_visit(node)
            self.fn.pop()
            return node
        visit_AsyncFunctionDef = visit_FunctionDef

        def visit_Match(self, node: ast.Match):
            self.generic_visit(node)
            pre = []
            subj = node.subject
            hint = table_hint(subj)
            def temp(value):
                fresh[0] += 1
                nm = f'__match_{fresh[0]}'
                pre.append(ast.copy_location(ast.Assign(targets=[ast.Name(id=nm, ctx=ast.Store())], value=value), node))
                if _evidently_bool(value):
                    _BOOL_TEMPS.add(nm)
                if self.fn:
                    self.fn[-1]._added_locals = set(getattr(self.fn[-1], '_added_locals', set())) | {nm}  # type: ignore[attr-defined]
                return ast.Name(id=nm, ctx=ast.Load())
            if isinstance(subj, (ast.Tuple, ast.List)) and not simple(subj) and not any(isinstance(e, ast.Starred) for e in subj.elts):
                # a display of expressions: every component is evaluated once, in order, and matched on its own
                subj = ast.Tuple(elts=[e if simple(e) else temp(e) for e in subj.elts], ctx=ast.Load())
            elif not simple(subj):
                subj = temp(subj)
            try:
                arms = []
                for c in node.cases:
                    t, b = _pattern(c.pattern, subj, hint)
                    late_guard = None
                    if c.guard is not None:
                        used = {x.id for x in ast.walk(c.guard) if isinstance(x, ast.Name)}
                        if used & {n_ for n_, _ in b}:
                            late_guard = c.guard        # the guard reads what the pattern binds: it is tested after the bindings
                        else:
                            t = c.guard if t is None else ast.BoolOp(op=ast.And(), values=[t, c.guard])
                    binds = [ast.Assign(targets=[ast.Name(id=n_, ctx=ast.Store())], value=v_) for n_, v_ in b]
                    arms.append((t, binds, list(c.body), c, late_guard))
            except _NoMatchDesugar:
                return node
            chain: list = []
            for t, binds, body, c, lg in reversed(arms):
                if lg is not None and chain:
                    # the guard reads the captures and later arms exist: bind inside the test (`... and ((a := s[0]), (b := s[1])) and guard`),
                    # so that a failing guard falls through to the next arm like any failing test
                    parts = [] if t is None else [t]
                    if binds:
                        parts.append(ast.Tuple(elts=[ast.NamedExpr(target=ast.Name(id=b_.targets[0].id, ctx=ast.Store()), value=b_.value) for b_ in binds], ctx=ast.Load()))
                    parts.append(lg)
                    t2 = parts[0] if len(parts) == 1 else ast.BoolOp(op=ast.And(), values=parts)
                    chain = [ast.copy_location(ast.If(test=t2, body=body, orelse=chain), c.pattern)]
                    continue
                inner = binds + ([ast.copy_location(ast.If(test=lg, body=body, orelse=[]), c.pattern)] if lg is not None else body)
                if t is None:
                    chain = inner
                else:
                    chain = [ast.copy_location(ast.If(test=t, body=inner, orelse=chain), c.pattern)]
            count[0] += 1
            out = pre + (chain or [ast.copy_location(ast.Pass(), node)])
            for st in out:
                ast.copy_location(st, node) if not hasattr(st, 'lineno') else None
                ast.fix_missing_locations(st)
            return out
    R().visit(tree)
    ast.fix_missing_locations(tree)
    return count[0]


# ---------------------------------------------------------------------------
# testability seams: `_sleep = time.sleep` at module / class level, trivial factory methods
# ---------------------------------------------------------------------------

def _dotted_expr(e: ast.AST) -> Optional[str]:
    if isinstance(e, ast.Name):
        return e.id
    if isinstance(e, ast.Attribute):
        b = _dotted_expr(e.value)
        return None if b is None else b + '.' + e.attr
    return None


def inline_seams(tree: ast.Module) -> int:
    """Indirections that default to a library object are read as that object:
      * a module-level name bound once to a dotted path rooted at an import (`_sleep = time.sleep`);
      * a class attribute bound once to `staticmethod(<such a path>)`, or to such a path that names a class or a builtin
        of a C module (no method binding), read through self / cls / the class name, never assigned anywhere else;
      * a private method without parameters whose whole body is `return <expression over self and globals>` (a factory
        such as `def _make_queue(self): return asyncio.Queue()`), not overridden in the module: its call is that expression.
    The analysis then sees the default wiring - which is what the properties are about."""
    imported: Set[str] = set()
    for st in tree.body:
        stmts = [st]
        if isinstance(st, ast.Try):
            stmts = list(st.body) + [x for h in st.handlers for x in h.body]
        elif isinstance(st, ast.If):
            stmts = list(st.body) + list(st.orelse)
        for s2 in stmts:
            if isinstance(s2, ast.Import):
                imported |= {(al.asname or al.name).split('.')[0] for al in s2.names}
            elif isinstance(s2, ast.ImportFrom):
                imported |= {al.asname or al.name for al in s2.names}
    single = _module_single_names(tree)
    count = [0]

    mod_alias: Dict[str, ast.AST] = {}

    def lib_path(v: ast.AST) -> bool:
        d = _dotted_expr(v)
        if d is None:
            return False
        head = d.split('.')[0]
        return head in single and (head in imported or head in mod_alias)

    # 1. module-level aliases (an alias of an alias included: `run_coro_ts = aio.run_coroutine_threadsafe`, `_submit = run_coro_ts`)
    for st in tree.body:
        if isinstance(st, ast.Assign) and len(st.targets) == 1 and isinstance(st.targets[0], ast.Name) \
                and st.targets[0].id in single and lib_path(st.value) and not st.targets[0].id.startswith('__'):
            v = st.value
            d = _dotted_expr(v) or ''
            if d.split('.')[0] in mod_alias:
                # expand the head through the earlier alias
                base = _clone_expr(mod_alias[d.split('.')[0]])
                for part in d.split('.')[1:]:
                    base = ast.Attribute(value=base, attr=part, ctx=ast.Load())
                v = ast.copy_location(base, st.value)
                ast.fix_missing_locations(v)
            mod_alias[st.targets[0].id] = v
    if mod_alias:
        # a function that binds the name locally sees its own variable
        def rewrite(node: ast.AST, shadow: Set[str]) -> None:
            for fld, val in ast.iter_fields(node):
                items = val if isinstance(val, list) else [val]
                for i, ch in enumerate(items):
                    if not isinstance(ch, ast.AST):
                        continue
                    if isinstance(ch, _FN + (ast.Lambda,)):
                        if isinstance(ch, ast.Lambda):
                            a = ch.args
                            sh = {p.arg for p in a.posonlyargs + a.args + a.kwonlyargs + ([a.vararg] if a.vararg else []) + ([a.kwarg] if a.kwarg else [])}
                        else:
                            sh = set(_bound_names(ch))
                        rewrite(ch, shadow | sh)
                        continue
                    if isinstance(ch, ast.Name) and isinstance(ch.ctx, ast.Load) and ch.id in mod_alias and ch.id not in shadow:
                        new = _clone_expr(mod_alias[ch.id])
                        for y in ast.walk(new):
                            ast.copy_location(y, ch)
                        if isinstance(val, list):
                            val[i] = new
                        else:
                            setattr(node, fld, new)
                        count[0] += 1
                        continue
                    rewrite(ch, shadow)
        rewrite(tree, set())
    # 2. / 3. class-level seams and trivial factories
    stored_attrs: Set[str] = {x.attr for x in ast.walk(tree) if isinstance(x, ast.Attribute) and isinstance(x.ctx, (ast.Store, ast.Del))}
    classes = [c for c in ast.walk(tree) if isinstance(c, ast.ClassDef)]
    defined: Dict[str, int] = {}
    for c in classes:
        for st in c.body:
            if isinstance(st, _FN):
                defined[st.name] = defined.get(st.name, 0) + 1
            elif isinstance(st, ast.Assign):
                for t in st.targets:
                    if isinstance(t, ast.Name):
                        defined[t.id] = defined.get(t.id, 0) + 1
            elif isinstance(st, ast.AnnAssign) and isinstance(st.target, ast.Name):
                defined[st.target.id] = defined.get(st.target.id, 0) + 1
    _C_MODULES = {'time', 'os', 'fcntl', 'msvcrt', '_thread', 'sys', 'math'}
    for c in classes:
        seams: Dict[str, ast.AST] = {}
        factories: Dict[str, ast.AST] = {}
        for st in c.body:
            if isinstance(st, ast.Assign) and len(st.targets) == 1 and isinstance(st.targets[0], ast.Name):
                nm, v = st.targets[0].id, st.value
                if defined.get(nm) != 1 or nm in stored_attrs or nm.startswith('__'):
                    continue
                if isinstance(v, ast.Call) and isinstance(v.func, ast.Name) and v.func.id == 'staticmethod' and len(v.args) == 1 \
                        and not v.keywords and lib_path(v.args[0]):
                    seams[nm] = v.args[0]
                elif lib_path(v):
                    d = _dotted_expr(v) or ''
                    if d.split('.')[-1][:1].isupper() or d.split('.')[0] in _C_MODULES:
                        seams[nm] = v
            elif isinstance(st, ast.FunctionDef) and st.name.startswith('_') and not st.name.startswith('__') and not st.decorator_list \
                    and defined.get(st.name) == 1 and st.name not in stored_attrs:
                a = st.args
                body = [x for x in st.body if not (isinstance(x, ast.Expr) and isinstance(x.value, ast.Constant))]
                if len(a.args) == 1 and not (a.posonlyargs or a.kwonlyargs or a.vararg or a.kwarg) and len(body) == 1 \
                        and isinstance(body[0], ast.Return) and body[0].value is not None:
                    rv = body[0].value
                    selfn = a.args[0].arg
                    names = {x.id for x in ast.walk(rv) if isinstance(x, ast.Name)}
                    if isinstance(rv, ast.Call) and not any(isinstance(x, (ast.Await, ast.Yield, ast.YieldFrom, ast.Lambda, ast.NamedExpr)) for x in ast.walk(rv)) \
                            and lib_path(rv.func) and names <= ({selfn} | imported | set(dir(__import__('builtins')))):
                        factories[st.name] = (rv, selfn)
        if not seams and not factories:
            continue
        for m in [x for x in ast.walk(c) if isinstance(x, _FN)]:
            if not m.args.args:
                continue
            recv = {m.args.args[0].arg, c.name} if m in c.body else {c.name, 'self', 'cls'}

            class R(ast.NodeTransformer):
                def visit_Call(self, n: ast.Call):
                    self.generic_visit(n)
                    f = n.func
                    if isinstance(f, ast.Attribute) and isinstance(f.value, ast.Name) and f.value.id in recv and f.attr in factories \
                            and not n.args and not n.keywords:
                        rv, selfn = factories[f.attr]
                        new = _clone_expr(rv)
                        for y in ast.walk(new):
                            if isinstance(y, ast.Name) and y.id == selfn:
                                y.id = f.value.id
                            ast.copy_location(y, n)
                        count[0] += 1
                        return new
                    return n

                def visit_Attribute(self, n: ast.Attribute):
                    self.generic_visit(n)
                    if isinstance(n.ctx, ast.Load) and isinstance(n.value, ast.Name) and n.value.id in recv and n.attr in seams:
                        new = _clone_expr(seams[n.attr])
                        for y in ast.walk(new):
                            ast.copy_location(y, n)
                        count[0] += 1
                        return new
                    return n
            R().visit(m)
    if count[0]:
        ast.fix_missing_locations(tree)
    return count[0]


# ---------------------------------------------------------------------------
# two-valued state locals  ->  booleans
# ---------------------------------------------------------------------------

def two_valued_locals_to_bools(tree: ast.Module) -> int:
    """A local that is only ever assigned one of two distinct constant-like values (literals, or dotted names such as
    `_Role.OWNER`) and only ever read in an (in)equality / identity comparison with one of the two is a boolean in
    disguise: `role = _Role.OWNER` ... `if role is _Role.OWNER` reads `role = True` ... `if role`.  The path queries
    track booleans."""
    count = 0
    set_alias_parents(tree)

    def const_key(v: ast.AST) -> Optional[str]:
        if isinstance(v, ast.Constant) and isinstance(v.value, (str, int)) and not isinstance(v.value, bool):
            return repr(v.value)
        d = _dotted_expr(v)
        if d is not None and '.' in d and d.split('.')[-1].isupper():
            return d
        return None
    def leaves(v: ast.AST) -> List[str]:
        """constant keys of a value that is a constant or a conditional expression over constants; [] otherwise"""
        if isinstance(v, ast.IfExp):
            a, b = leaves(v.body), leaves(v.orelse)
            return a + b if a and b else []
        k = const_key(v)
        return [k] if k else []
    for fn in [n for n in ast.walk(tree) if isinstance(n, _FN)]:
        own = list(_own(fn))
        nested_names = {x.id for n in ast.walk(fn) if n is not fn and isinstance(n, _FN + (ast.Lambda,)) for x in ast.walk(n) if isinstance(x, ast.Name)}
        params = {a.arg for a in fn.args.posonlyargs + fn.args.args + fn.args.kwonlyargs} | \
            ({fn.args.vararg.arg} if fn.args.vararg else set()) | ({fn.args.kwarg.arg} if fn.args.kwarg else set())
        stores: Dict[str, List[ast.Assign]] = {}
        bad: Set[str] = set(params) | nested_names
        for n in own:
            if isinstance(n, ast.Name) and isinstance(n.ctx, (ast.Store, ast.Del)):
                p = getattr(n, '_alias_parent', None)
                if isinstance(n.ctx, ast.Store) and isinstance(p, ast.Assign) and len(p.targets) == 1 and p.targets[0] is n and leaves(p.value):
                    stores.setdefault(n.id, []).append(p)
                elif isinstance(n.ctx, ast.Store) and isinstance(p, ast.AnnAssign) and p.target is n and p.value is not None and leaves(p.value):
                    stores.setdefault(n.id, []).append(p)
                else:
                    bad.add(n.id)
            elif isinstance(n, (ast.Global, ast.Nonlocal)):
                bad |= set(n.names)
        for nm, sts in stores.items():
            if nm in bad:
                continue
            keys = []
            for st in sts:
                for k in leaves(st.value):
                    if k not in keys:
                        keys.append(k)
            if len(keys) != 2:
                continue
            loads = [n for n in own if isinstance(n, ast.Name) and n.id == nm and isinstance(n.ctx, ast.Load)]
            plan = []
            ok = True
            for ld in loads:
                p = getattr(ld, '_alias_parent', None)
                if not (isinstance(p, ast.Compare) and len(p.ops) == 1 and isinstance(p.ops[0], (ast.Eq, ast.NotEq, ast.Is, ast.IsNot))):
                    ok = False
                    break
                other = p.comparators[0] if p.left is ld else p.left
                k = const_key(other)
                if k not in keys:
                    ok = False
                    break
                positive = isinstance(p.ops[0], (ast.Eq, ast.Is)) == (k == keys[0])
                plan.append((p, ld, positive))
            if not ok or not loads:
                continue
            def as_bool(v):
                if isinstance(v, ast.IfExp):
                    b_, o_ = as_bool(v.body), as_bool(v.orelse)
                    if isinstance(b_, ast.Constant) and isinstance(o_, ast.Constant) and b_.value is not o_.value:
                        # `A if c else B`: the truth value of c (or of its negation) - every read is a truth test
                        return v.test if b_.value else ast.copy_location(ast.UnaryOp(op=ast.Not(), operand=v.test), v)
                    return ast.copy_location(ast.IfExp(test=v.test, body=b_, orelse=o_), v)
                return ast.copy_location(ast.Constant(value=(const_key(v) == keys[0])), v)
            for st in sts:
                st.value = as_bool(st.value)
            for p, ld, positive in plan:
                new: ast.expr = ast.copy_location(ast.Name(id=nm, ctx=ast.Load()), p)
                if not positive:
                    new = ast.copy_location(ast.UnaryOp(op=ast.Not(), operand=new), p)
                _replace_child(getattr(p, '_alias_parent', None), p, new)
            count += 1
    if count:
        ast.fix_missing_locations(tree)
    return count


def _replace_child(par: Optional[ast.AST], old: ast.AST, new: ast.AST) -> None:
    if par is None:
        return
    for fld, val in ast.iter_fields(par):
        if val is old:
            setattr(par, fld, new)
            new._alias_parent = par  # type: ignore[attr-defined]
            return
        if isinstance(val, list):
            for i, x in enumerate(val):
                if x is old:
                    val[i] = new
                    new._alias_parent = par  # type: ignore[attr-defined]
                    return


def assertion_raises_to_asserts(tree: ast.Module) -> int:
    """`if T: raise AssertionError(...)` (nothing else in the body, no else) is what `assert not T, ...` expands to."""
    count = [0]

    class R(ast.NodeTransformer):
        def visit_If(self, node: ast.If):
            self.generic_visit(node)
            if not node.orelse and len(node.body) == 1 and isinstance(node.body[0], ast.Raise) and node.body[0].cause is None:
                exc = node.body[0].exc
                f = exc.func if isinstance(exc, ast.Call) else exc
                if isinstance(f, ast.Name) and f.id == 'AssertionError':
                    msg = exc.args[0] if isinstance(exc, ast.Call) and len(exc.args) == 1 and not exc.keywords else None
                    t = node.test
                    neg = t.operand if isinstance(t, ast.UnaryOp) and isinstance(t.op, ast.Not) else ast.copy_location(ast.UnaryOp(op=ast.Not(), operand=t), t)
                    count[0] += 1
                    return ast.copy_location(ast.Assert(test=neg, msg=msg), node)
            return node
    R().visit(tree)
    if count[0]:
        ast.fix_missing_locations(tree)
    return count[0]


def split_chain_assignments(tree: ast.Module) -> int:
    """`self.a = x = V` -> `self.a = V; x = self.a` and `a = b = V` -> `a = V; b = a` (targets that are plain names or
    attributes of a name; the value is evaluated once either way).  A subscript target keeps the statement as it is."""
    count = [0]

    class R(ast.NodeTransformer):
        def visit_Assign(self, node: ast.Assign):
            self.generic_visit(node)
            if len(node.targets) < 2:
                return node
            def simple(t):
                return isinstance(t, ast.Name) or (isinstance(t, ast.Attribute) and isinstance(t.value, ast.Name))
            if not all(simple(t) for t in node.targets):
                return node
            # the attribute (if any) receives the value, the names read it back from there
            first = next((t for t in node.targets if isinstance(t, ast.Attribute)), node.targets[0])
            rest = [t for t in node.targets if t is not first]
            if any(isinstance(t, ast.Attribute) for t in rest):
                return node
            out = [ast.copy_location(ast.Assign(targets=[first], value=node.value), node)]
            src = _clone_expr(first)
            for y in ast.walk(src):
                if hasattr(y, 'ctx'):
                    y.ctx = ast.Load()
            for t in rest:
                out.append(ast.copy_location(ast.Assign(targets=[t], value=_clone_expr(src)), node))
            count[0] += 1
            return out
    R().visit(tree)
    if count[0]:
        ast.fix_missing_locations(tree)
    return count[0]


def inline_trivial_methods(tree: ast.Module) -> int:
    """A private, synchronous method whose whole body is one expression - `return E` or the statement `E` - is a name for
    that expression: `self._spawn_daemon(coro, name)` with `def _spawn_daemon(self, coro, name): return DaemonTask(coro,
    loop=self.loop, name=name)` reads `DaemonTask(coro, loop=self.loop, name=name)`.  Only when the method is defined once
    in the module under that name, never used other than called through self, every parameter is used at most once in E
    (or the argument is a plain name / attribute path / constant), and E has no await, yield, lambda or comprehension."""
    count = [0]
    classes = [c for c in ast.walk(tree) if isinstance(c, ast.ClassDef)]
    defined: Dict[str, int] = {}
    for c in classes:
        for st in c.body:
            if isinstance(st, _FN):
                defined[st.name] = defined.get(st.name, 0) + 1
    stored_attrs: Set[str] = {x.attr for x in ast.walk(tree) if isinstance(x, ast.Attribute) and isinstance(x.ctx, (ast.Store, ast.Del))}
    set_alias_parents(tree)
    # uses of `<name>.attr` that are not the callee of a call
    loose: Set[str] = set()
    for x in ast.walk(tree):
        if isinstance(x, ast.Attribute) and isinstance(x.ctx, ast.Load):
            par = getattr(x, '_alias_parent', None)
            if not (isinstance(par, ast.Call) and par.func is x):
                loose.add(x.attr)

    def plain(e: ast.AST) -> bool:
        if isinstance(e, (ast.Name, ast.Constant)):
            return True
        if isinstance(e, ast.Attribute):
            return plain(e.value)
        return False
    for c in classes:
        cands: Dict[str, Tuple[ast.FunctionDef, ast.expr, bool]] = {}
        for st in c.body:
            if not (isinstance(st, ast.FunctionDef) and st.name.startswith('_') and not st.name.startswith('__') and not st.decorator_list):
                continue
            if defined.get(st.name) != 1 or st.name in stored_attrs or st.name in loose:
                continue
            a = st.args
            if a.posonlyargs or a.kwonlyargs or a.kwarg or a.defaults or not a.args:
                continue
            body = [x for x in st.body if not (isinstance(x, ast.Expr) and isinstance(x.value, ast.Constant))]
            if len(body) != 1:
                continue
            if isinstance(body[0], ast.Return) and body[0].value is not None:
                e, is_ret = body[0].value, True
            elif isinstance(body[0], ast.Expr):
                e, is_ret = body[0].value, False
            else:
                continue
            if any(isinstance(x, (ast.Await, ast.Yield, ast.YieldFrom, ast.Lambda, ast.ListComp, ast.SetComp, ast.DictComp, ast.GeneratorExp, ast.NamedExpr))
                   for x in ast.walk(e)):
                continue
            params = [x.arg for x in a.args]
            names = [x.id for x in ast.walk(e) if isinstance(x, ast.Name)]
            if any(isinstance(x, ast.Name) and isinstance(x.ctx, (ast.Store, ast.Del)) for x in ast.walk(e)):
                continue
            # the vararg may only be splatted once: `*args`
            if a.vararg:
                uses = [x for x in ast.walk(e) if isinstance(x, ast.Name) and x.id == a.vararg.arg]
                if len(uses) != 1 or not isinstance(getattr(uses[0], '_alias_parent', None), ast.Starred):
                    continue
            # the method must not call itself
            if any(isinstance(x, ast.Attribute) and x.attr == st.name for x in ast.walk(e)):
                continue
            cands[st.name] = (st, e, is_ret)
        if not cands:
            continue
        for m in [x for x in ast.walk(c) if isinstance(x, _FN)]:
            if not m.args.args and m in c.body:
                continue

            class R(ast.NodeTransformer):
                def visit_Call(self, n: ast.Call):
                    self.generic_visit(n)
                    f = n.func
                    if not (isinstance(f, ast.Attribute) and isinstance(f.value, ast.Name) and f.value.id == 'self' and f.attr in cands):
                        return n
                    st, e, is_ret = cands[f.attr]
                    if st is m:
                        return n
                    par = getattr(n, '_alias_parent', None)
                    if not is_ret and not isinstance(par, ast.Expr):
                        return n        # the call's value (None) is used: leave it
                    if n.keywords and any(k.arg is None for k in n.keywords):
                        return n
                    params = [x.arg for x in st.args.args][1:]
                    selfn = st.args.args[0].arg
                    pos = list(n.args)
                    if any(isinstance(x, ast.Starred) for x in pos[:len(params)]):
                        return n
                    binding: Dict[str, ast.expr] = {}
                    for p_, a_ in zip(params, pos):
                        binding[p_] = a_
                    extra = pos[len(params):]
                    for k in n.keywords:
                        if k.arg in binding or k.arg not in params:
                            return n
                        binding[k.arg] = k.value
                    if set(binding) != set(params):
                        return n
                    if extra and not st.args.vararg:
                        return n
                    for p_ in params:
                        uses = sum(1 for x in ast.walk(e) if isinstance(x, ast.Name) and x.id == p_)
                        if uses > 1 and not plain(binding[p_]):
                            return n
                        if uses == 0 and not plain(binding[p_]):
                            return n        # the argument's evaluation would be dropped
                    new = _clone_expr(e)
                    set_alias_parents(new)

                    class S(ast.NodeTransformer):
                        def visit_Starred(self, s_: ast.Starred):
                            if st.args.vararg and isinstance(s_.value, ast.Name) and s_.value.id == st.args.vararg.arg:
                                return [_clone_expr(x) for x in extra]
                            self.generic_visit(s_)
                            return s_

                        def visit_Name(self, x: ast.Name):
                            if x.id in binding:
                                return _clone_expr(binding[x.id])
                            if x.id == selfn:
                                return ast.Name(id='self', ctx=ast.Load())
                            return x
                    new = S().visit(new)
                    for y in ast.walk(new):
                        ast.copy_location(y, n)
                    count[0] += 1
                    return new
            R().visit(m)
    # `_helper(args)` for a one-expression private module-level function (`def _new_queue(): return asyncio.Queue()`,
    # `def _marker_is_ours(table, key, ev): return table.get(key, (None, None))[1] is ev`): read in place wherever it is called by name
    mod_defs: Dict[str, int] = {}
    for st in ast.walk(tree):
        if isinstance(st, _FN + (ast.ClassDef,)):
            mod_defs[st.name] = mod_defs.get(st.name, 0) + 1
    mod_single = _module_single_names(tree)
    mcands: Dict[str, ast.FunctionDef] = {}
    for st in tree.body:
        if not (isinstance(st, ast.FunctionDef) and st.name.startswith('_') and not st.name.startswith('__') and not st.decorator_list):
            continue
        if mod_defs.get(st.name) != 1 or st.name not in mod_single:
            continue
        a = st.args
        if a.posonlyargs or a.kwonlyargs or a.kwarg or a.vararg or a.defaults:
            continue
        body = [x for x in st.body if not (isinstance(x, ast.Expr) and isinstance(x.value, ast.Constant))]
        if len(body) != 1 or not isinstance(body[0], ast.Return) or body[0].value is None:
            continue
        e = body[0].value
        if any(isinstance(x, (ast.Await, ast.Yield, ast.YieldFrom, ast.Lambda, ast.ListComp, ast.SetComp, ast.DictComp, ast.GeneratorExp, ast.NamedExpr))
               for x in ast.walk(e)):
            continue
        if any(isinstance(x, ast.Name) and x.id == st.name for x in ast.walk(e)):
            continue
        # used only as a callee (a helper that is also passed around keeps its identity)
        uses = [x for x in ast.walk(tree) if isinstance(x, ast.Name) and x.id == st.name and isinstance(x.ctx, ast.Load)]
        if not uses or any(not (isinstance(getattr(x, '_alias_parent', None), ast.Call) and getattr(x, '_alias_parent').func is x) for x in uses):
            continue
        mcands[st.name] = st
    if mcands:
        class RM(ast.NodeTransformer):
            def __init__(self):
                self.shadow = [set()]

            def _fn(self, node):
                self.shadow.append(self.shadow[-1] | set(_bound_names(node)))
                self.generic_visit(node)
                self.shadow.pop()
                return node
            visit_FunctionDef = visit_AsyncFunctionDef = _fn

            def visit_Call(self, n: ast.Call):
                self.generic_visit(n)
                f = n.func
                if not (isinstance(f, ast.Name) and f.id in mcands and f.id not in self.shadow[-1]):
                    return n
                st = mcands[f.id]
                params = [x.arg for x in st.args.args]
                if n.keywords and any(k.arg is None or k.arg not in params for k in n.keywords):
                    return n
                if any(isinstance(x, ast.Starred) for x in n.args) or len(n.args) > len(params):
                    return n
                binding = dict(zip(params, n.args))
                for k in n.keywords:
                    if k.arg in binding:
                        return n
                    binding[k.arg] = k.value
                if set(binding) != set(params):
                    return n
                e = st.body[-1].value
                # names of the helper's expression must mean the same at the call site: parameters aside, they are module-level
                free = {x.id for x in ast.walk(e) if isinstance(x, ast.Name)} - set(params)
                if free & self.shadow[-1]:
                    return n
                for p_ in params:
                    uses_ = sum(1 for x in ast.walk(e) if isinstance(x, ast.Name) and x.id == p_)
                    if uses_ != 1 and not plain(binding[p_]):
                        return n
                new = _clone_expr(e)

                class S(ast.NodeTransformer):
                    def visit_Name(self, x: ast.Name):
                        if x.id in binding:
                            return _clone_expr(binding[x.id])
                        return x
                new = S().visit(new)
                for y in ast.walk(new):
                    ast.copy_location(y, n)
                count[0] += 1
                return new
        for top in tree.body:
            if isinstance(top, ast.FunctionDef) and top.name in mcands:
                continue
            RM().visit(top)
    # `Cls.helper(args)` for a one-expression classmethod / staticmethod of a private class (`_FlushMode.from_cancel(cancel)`)
    for c in classes:
        if not c.name.startswith('_'):
            continue
        for st in c.body:
            if not (isinstance(st, ast.FunctionDef) and len(st.decorator_list) == 1 and isinstance(st.decorator_list[0], ast.Name)
                    and st.decorator_list[0].id in ('classmethod', 'staticmethod')):
                continue
            kind = st.decorator_list[0].id
            a = st.args
            if a.posonlyargs or a.kwonlyargs or a.kwarg or a.vararg or a.defaults \
                    or sum(1 for x in c.body if isinstance(x, _FN) and x.name == st.name) != 1 \
                    or sum(1 for c2 in classes if c2.name == c.name) != 1:
                continue
            body = [x for x in st.body if not (isinstance(x, ast.Expr) and isinstance(x.value, ast.Constant))]
            if len(body) != 1 or not isinstance(body[0], ast.Return) or body[0].value is None:
                continue
            e = body[0].value
            if any(isinstance(x, (ast.Await, ast.Yield, ast.YieldFrom, ast.Lambda, ast.ListComp, ast.SetComp, ast.DictComp, ast.GeneratorExp, ast.NamedExpr))
                   for x in ast.walk(e)):
                continue
            params = [x.arg for x in a.args]
            clsn = params[0] if kind == 'classmethod' and params else None
            vparams = params[1:] if kind == 'classmethod' else params

            class RC(ast.NodeTransformer):
                def visit_Call(self, n: ast.Call):
                    self.generic_visit(n)
                    f = n.func
                    if not (isinstance(f, ast.Attribute) and f.attr == st.name and isinstance(f.value, ast.Name) and f.value.id == c.name):
                        return n
                    if n.keywords or len(n.args) != len(vparams) or any(isinstance(x, ast.Starred) for x in n.args):
                        return n
                    binding = dict(zip(vparams, n.args))
                    for p_ in vparams:
                        uses = sum(1 for x in ast.walk(e) if isinstance(x, ast.Name) and x.id == p_)
                        if uses != 1 and not plain(binding[p_]):
                            return n
                    new = _clone_expr(e)

                    class S(ast.NodeTransformer):
                        def visit_Name(self, x: ast.Name):
                            if x.id in binding:
                                return _clone_expr(binding[x.id])
                            if clsn is not None and x.id == clsn:
                                return ast.Name(id=c.name, ctx=ast.Load())
                            return x
                    new = S().visit(new)
                    for y in ast.walk(new):
                        ast.copy_location(y, n)
                    count[0] += 1
                    return new
            for top in tree.body:
                if top is not c or True:
                    RC().visit(top)
    if count[0]:
        ast.fix_missing_locations(tree)
        set_alias_parents(tree)
    return count[0]


def two_valued_properties_to_bools(tree: ast.Module) -> int:
    """A property that answers with one of two named constants depending on a test (`if self.event.is_set(): return
    _BufferState.IDLE` / `return _BufferState.PENDING`) and is only ever compared with one of the two is that test:
    `self._state is _BufferState.PENDING` reads `not self.event.is_set()`."""
    count = 0
    set_alias_parents(tree)

    def const_key(v: ast.AST) -> Optional[str]:
        d = _dotted_expr(v)
        if d is not None and '.' in d and d.split('.')[-1].isupper():
            return d
        if isinstance(v, ast.Constant) and isinstance(v.value, (str, int)) and not isinstance(v.value, bool):
            return repr(v.value)
        return None
    props: Dict[str, Tuple[ast.expr, str, str, str]] = {}
    defined: Dict[str, int] = {}
    for c in [x for x in ast.walk(tree) if isinstance(x, ast.ClassDef)]:
        for st in c.body:
            if isinstance(st, _FN):
                defined[st.name] = defined.get(st.name, 0) + 1
    for c in [x for x in ast.walk(tree) if isinstance(x, ast.ClassDef)]:
        for st in c.body:
            if not (isinstance(st, ast.FunctionDef) and len(st.decorator_list) == 1 and _dotted_expr(st.decorator_list[0]) == 'property'
                    and defined.get(st.name) == 1 and len(st.args.args) == 1):
                continue
            body = [x for x in st.body if not (isinstance(x, ast.Expr) and isinstance(x.value, ast.Constant))]
            t = a = b = None
            if len(body) == 2 and isinstance(body[0], ast.If) and not body[0].orelse and len(body[0].body) == 1 \
                    and isinstance(body[0].body[0], ast.Return) and isinstance(body[1], ast.Return):
                t, a, b = body[0].test, body[0].body[0].value, body[1].value
            elif len(body) == 1 and isinstance(body[0], ast.If) and len(body[0].body) == 1 and len(body[0].orelse) == 1 \
                    and isinstance(body[0].body[0], ast.Return) and isinstance(body[0].orelse[0], ast.Return):
                t, a, b = body[0].test, body[0].body[0].value, body[0].orelse[0].value
            elif len(body) == 1 and isinstance(body[0], ast.Return) and isinstance(body[0].value, ast.IfExp):
                t, a, b = body[0].value.test, body[0].value.body, body[0].value.orelse
            if t is None or a is None or b is None:
                continue
            ka, kb = const_key(a), const_key(b)
            if not ka or not kb or ka == kb:
                continue
            if any(isinstance(x, (ast.Await, ast.Yield, ast.YieldFrom, ast.NamedExpr, ast.Lambda)) for x in ast.walk(t)):
                continue
            props[st.name] = (t, ka, kb, st.args.args[0].arg)
    if not props:
        return 0
    # every read of `.P` must be one side of a comparison with one of its two constants, through a plain receiver
    plans: Dict[str, list] = {p_: [] for p_ in props}
    bad: Set[str] = set()
    for x in ast.walk(tree):
        if isinstance(x, ast.Attribute) and x.attr in props:
            if not isinstance(x.ctx, ast.Load):
                bad.add(x.attr)
                continue
            par = getattr(x, '_alias_parent', None)
            t, ka, kb, selfn = props[x.attr]
            if not (isinstance(par, ast.Compare) and len(par.ops) == 1 and isinstance(par.ops[0], (ast.Eq, ast.NotEq, ast.Is, ast.IsNot))
                    and _dotted_expr(x.value) is not None):
                bad.add(x.attr)
                continue
            other = par.comparators[0] if par.left is x else par.left
            k = const_key(other)
            if k not in (ka, kb):
                bad.add(x.attr)
                continue
            positive = isinstance(par.ops[0], (ast.Eq, ast.Is)) == (k == ka)
            plans[x.attr].append((par, x, positive))
    for p_, plan in plans.items():
        if p_ in bad or not plan:
            continue
        t, ka, kb, selfn = props[p_]
        for par, x, positive in plan:
            new = _clone_expr(t)
            recv = x.value

            class S(ast.NodeTransformer):
                def visit_Name(self, n: ast.Name):
                    if n.id == selfn:
                        return _clone_expr(recv)
                    return n
            new = S().visit(new)
            if not positive:
                new = ast.UnaryOp(op=ast.Not(), operand=new)
            for y in ast.walk(new):
                ast.copy_location(y, par)
            _replace_child(getattr(par, '_alias_parent', None), par, new)
            count += 1
    if count:
        ast.fix_missing_locations(tree)
        set_alias_parents(tree)
    return count



def inline_cm_aliases(tree: ast.Module) -> int:
    """`with _in_flight() as markers:` where `_in_flight` is a @contextmanager generator of the package whose single yield
    hands out a variable it does not own (`yield events`, `yield self._table`): inside the block `markers` *is* that
    variable.  When the name is bound by such with-items only and read inside their blocks only, its reads are replaced by
    the yielded expression and the `as` clause is dropped (what the generator does around the yield stays where it is)."""
    import copy
    count = 0
    FN = (ast.FunctionDef, ast.AsyncFunctionDef)

    def own(fn):
        """nodes of fn's own body (nested defs / lambdas / classes not entered)"""
        todo = list(fn.body)
        while todo:
            n = todo.pop()
            yield n
            for c in ast.iter_child_nodes(n):
                if not isinstance(c, FN + (ast.Lambda, ast.ClassDef)):
                    todo.append(c)
                else:
                    yield c           # the def itself (its name is bound here), not its body

    def locals_of(fn) -> Set[str]:
        a = fn.args
        out = {x.arg for x in a.posonlyargs + a.args + a.kwonlyargs}
        if a.vararg:
            out.add(a.vararg.arg)
        if a.kwarg:
            out.add(a.kwarg.arg)
        for n in own(fn):
            if isinstance(n, ast.Name) and isinstance(n.ctx, (ast.Store, ast.Del)):
                out.add(n.id)
            elif isinstance(n, FN + (ast.ClassDef,)):
                out.add(n.name)
        return out

    gens: Dict[str, ast.expr] = {}     # helper name -> yielded expression
    dup: Set[str] = set()
    for g in ast.walk(tree):
        if not isinstance(g, ast.FunctionDef):
            continue
        decs = [d.attr if isinstance(d, ast.Attribute) else getattr(d, 'id', None) for d in g.decorator_list]
        if decs != ['contextmanager']:
            continue
        ys = [n for n in own(g) if isinstance(n, (ast.Yield, ast.YieldFrom))]
        if len(ys) != 1 or not isinstance(ys[0], ast.Yield) or ys[0].value is None:
            continue
        v = ys[0].value
        loc = locals_of(g)
        ok = (isinstance(v, ast.Name) and v.id not in loc) or (
            isinstance(v, ast.Attribute) and isinstance(v.value, ast.Name) and v.value.id == 'self' and g.args.args
            and g.args.args[0].arg == 'self')
        if not ok:
            continue
        if g.name in gens:
            dup.add(g.name)
        gens[g.name] = v
    for d in dup:
        gens.pop(d, None)
    if not gens:
        return 0
    for u in ast.walk(tree):
        if not isinstance(u, FN):
            continue
        uloc = None
        items = []     # (with stmt, item, yielded expr)
        for n in own(u):
            if isinstance(n, (ast.With,)):
                for it in n.items:
                    ce = it.context_expr
                    if not (isinstance(ce, ast.Call) and isinstance(it.optional_vars, ast.Name)):
                        continue
                    f = ce.func
                    nm = f.id if isinstance(f, ast.Name) else (f.attr if isinstance(f, ast.Attribute) and isinstance(f.value, ast.Name)
                                                               and f.value.id == 'self' else None)
                    if nm in gens:
                        items.append((n, it, gens[nm]))
        if not items:
            continue
        uloc = locals_of(u)
        by_name: Dict[str, list] = {}
        for w, it, v in items:
            by_name.setdefault(it.optional_vars.id, []).append((w, it, v))
        for x, lst in by_name.items():
            vs = {ast.dump(v) for _, _, v in lst}
            if len(vs) != 1:
                continue
            v = lst[0][2]
            if isinstance(v, ast.Name) and (v.id in uloc or v.id == x):
                continue          # the using function has a variable of its own under that name
            if isinstance(v, ast.Attribute) and not (u.args.args and u.args.args[0].arg == 'self'):
                continue
            binders = {id(it.optional_vars) for _, it, _ in lst}
            a = u.args
            if x in {y.arg for y in a.posonlyargs + a.args + a.kwonlyargs} or (a.vararg and a.vararg.arg == x) or (a.kwarg and a.kwarg.arg == x):
                continue
            inside: Set[int] = set()
            for w, _, _ in lst:
                for st in w.body:
                    inside |= {id(z) for z in ast.walk(st)}
            ok = True
            for n in ast.walk(u):
                if isinstance(n, ast.Name) and n.id == x and n is not None:
                    if isinstance(n.ctx, ast.Load):
                        if id(n) not in inside:
                            ok = False
                    elif id(n) not in binders:
                        ok = False
                elif isinstance(n, (ast.Global, ast.Nonlocal)) and x in n.names:
                    ok = False
            # (a nested function that reads the name later than the block would see the last binding: refuse)
            for n in own(u):
                if isinstance(n, FN + (ast.Lambda,)) and any(isinstance(z, ast.Name) and z.id == x for z in ast.walk(n)):
                    ok = False
            if not ok:
                continue

            class R(ast.NodeTransformer):
                def visit_Name(self, node: ast.Name):
                    if node.id == x and isinstance(node.ctx, ast.Load):
                        return ast.copy_location(copy.deepcopy(v), node)
                    return node
            for w, it, _ in lst:
                w.body = [R().visit(st) for st in w.body]
                it.optional_vars = None
                count += 1
            u._removed_locals = set(getattr(u, '_removed_locals', set())) | {x}  # type: ignore[attr-defined]
    return count


def sentinel_lookups_to_try(tree: ast.Module) -> int:
    """`x = d.get(k, _MISSING)` followed by `if x is _MISSING: A else: B` (or the `is not` form), where `_MISSING` is a
    module-level name bound once to `object()`: a single look-up whose miss is told by identity with a private object -
    exactly `try: x = d[k]` / `except KeyError: A` / `else: B` (Mapping.get is defined that way).  Rewritten to that form, in
    which the rules read look-ups, provided the miss branch never reads `x` (it would be the sentinel there)."""
    sent: Dict[str, int] = {}
    for n in ast.walk(tree):
        if isinstance(n, ast.Name) and isinstance(n.ctx, (ast.Store, ast.Del)):
            sent[n.id] = sent.get(n.id, 0) + 1
    private: Set[str] = set()
    for st in tree.body:
        tg, v = None, None
        if isinstance(st, ast.Assign) and len(st.targets) == 1 and isinstance(st.targets[0], ast.Name):
            tg, v = st.targets[0].id, st.value
        elif isinstance(st, ast.AnnAssign) and isinstance(st.target, ast.Name) and st.value is not None:
            tg, v = st.target.id, st.value
        if tg is not None and sent.get(tg) == 1 and isinstance(v, ast.Call) and isinstance(v.func, ast.Name) and v.func.id == 'object' \
                and not v.args and not v.keywords:
            private.add(tg)
    if not private:
        return 0
    count = 0

    def src_order(nodes):
        return sorted(nodes, key=lambda z: (getattr(z, 'lineno', 0), getattr(z, 'col_offset', 0)))

    for fn in ast.walk(tree):
        if not isinstance(fn, (ast.FunctionDef, ast.AsyncFunctionDef)):
            continue
        for node in ast.walk(fn):
            for field in ('body', 'orelse', 'finalbody'):
                body = getattr(node, field, None)
                if not isinstance(body, list):
                    continue
                i = 0
                while i + 1 < len(body):
                    st, nx = body[i], body[i + 1]
                    i += 1
                    tgt = val = None
                    if isinstance(st, ast.Assign) and len(st.targets) == 1 and isinstance(st.targets[0], ast.Name):
                        tgt, val = st.targets[0], st.value
                    elif isinstance(st, ast.AnnAssign) and isinstance(st.target, ast.Name) and st.value is not None:
                        tgt, val = st.target, st.value
                    if tgt is None or not (isinstance(val, ast.Call) and isinstance(val.func, ast.Attribute) and val.func.attr == 'get'
                                           and len(val.args) == 2 and not val.keywords and isinstance(val.args[1], ast.Name)
                                           and val.args[1].id in private):
                        continue
                    S, x = val.args[1].id, tgt.id
                    if not isinstance(nx, ast.If):
                        continue
                    t = nx.test
                    if not (isinstance(t, ast.Compare) and len(t.ops) == 1 and isinstance(t.ops[0], (ast.Is, ast.IsNot))
                            and isinstance(t.left, ast.Name) and isinstance(t.comparators[0], ast.Name)
                            and {t.left.id, t.comparators[0].id} == {x, S}):
                        continue
                    miss, hit = (nx.body, nx.orelse) if isinstance(t.ops[0], ast.Is) else (nx.orelse, nx.body)
                    # the miss branch must not read x before writing it
                    occ = src_order([z for s_ in miss for z in ast.walk(s_) if isinstance(z, ast.Name) and z.id == x])
                    if occ and isinstance(occ[0].ctx, ast.Load):
                        continue
                    # ... and when it falls through without binding x, nothing afterwards may read x
                    binds = any(isinstance(z, ast.Name) and z.id == x and isinstance(z.ctx, ast.Store) for s_ in miss for z in ast.walk(s_))
                    if not binds:
                        inside = {id(z) for s_ in hit for z in ast.walk(s_)} | {id(z) for z in ast.walk(t)} | {id(tgt)}
                        later = src_order([z for z in ast.walk(fn) if isinstance(z, ast.Name) and z.id == x and id(z) not in inside])
                        end = getattr(nx, 'end_lineno', nx.lineno)
                        after = [z for z in later if z.lineno > end]
                        before = [z for z in later if z.lineno < st.lineno and isinstance(z.ctx, ast.Load)]
                        in_loop = False
                        q_ = getattr(st, '_alias_parent', None) or getattr(st, '_parent', None)
                        # (whatever comes next must bind x again before reading it; inside a loop an earlier read would see the
                        # sentinel of the previous iteration)
                        if (after and isinstance(after[0].ctx, ast.Load)) or (before and any(
                                isinstance(a_, (ast.For, ast.While, ast.AsyncFor)) and st in ast.walk(a_) for a_ in ast.walk(fn))):
                            continue
                    # the sentinel must not be used for anything else in this function through x
                    sub = ast.Subscript(value=val.func.value, slice=val.args[0], ctx=ast.Load())
                    ast.copy_location(sub, val)
                    asg = ast.Assign(targets=[tgt], value=sub)
                    ast.copy_location(asg, st)
                    ke = ast.copy_location(ast.Name(id='KeyError', ctx=ast.Load()), nx)
                    h = ast.ExceptHandler(type=ke, name=None, body=miss or [ast.copy_location(ast.Pass(), nx)])
                    ast.copy_location(h, nx)
                    tr = ast.Try(body=[asg], handlers=[h], orelse=hit or [], finalbody=[])
                    ast.copy_location(tr, st)
                    tr.end_lineno = getattr(nx, 'end_lineno', None)
                    body[i - 1:i + 1] = [tr]
                    count += 1
    return count


def flags_from_try(tree: ast.Module) -> int:
    """`try: ok = <test>` / `except E: ok = False` followed by `if ok: BODY` (no else), `ok` used nowhere else: the handler's
    only effect is to skip BODY, so this is `try: ok = <test>` / `except E: pass` / `else: if ok: BODY` - the form in which the
    test stands next to what it guards (BODY was outside the try before and stays outside the handlers now: `else`)."""
    count = 0
    for fn in ast.walk(tree):
        if not isinstance(fn, (ast.FunctionDef, ast.AsyncFunctionDef)):
            continue
        for node in ast.walk(fn):
            for field in ('body', 'orelse', 'finalbody'):
                body = getattr(node, field, None)
                if not isinstance(body, list):
                    continue
                for i in range(len(body) - 1):
                    st, nx = body[i], body[i + 1]
                    if not (isinstance(st, ast.Try) and len(st.body) == 1 and not st.orelse and not st.finalbody and st.handlers
                            and isinstance(nx, ast.If) and not nx.orelse and isinstance(nx.test, ast.Name)):
                        continue
                    a = st.body[0]
                    if not (isinstance(a, ast.Assign) and len(a.targets) == 1 and isinstance(a.targets[0], ast.Name) and a.targets[0].id == nx.test.id):
                        continue
                    f = nx.test.id
                    if not all(len(h.body) == 1 and isinstance(h.body[0], ast.Assign) and len(h.body[0].targets) == 1
                               and isinstance(h.body[0].targets[0], ast.Name) and h.body[0].targets[0].id == f
                               and isinstance(h.body[0].value, ast.Constant) and not h.body[0].value.value and h.name is None for h in st.handlers):
                        continue
                    uses = [z for z in ast.walk(fn) if isinstance(z, ast.Name) and z.id == f]
                    if len(uses) != 2 + len(st.handlers):
                        continue
                    for h in st.handlers:
                        h.body = [ast.copy_location(ast.Pass(), h.body[0])]
                    st.orelse = [nx]
                    del body[i + 1]
                    fn._removed_locals = set(getattr(fn, '_removed_locals', set()))  # (nothing removed: f stays)
                    count += 1
                    break
    return count


def drop_reraise_handlers(tree: ast.Module) -> int:
    """`try: B` / `except X: raise` (every handler of the statement nothing but a bare re-raise) / `else: E` / `finally: F`
    is `try: B; E` / `finally: F` - or plainly `B; E` without a finally: the handlers change nothing about any exception,
    and `else` runs exactly when B completed."""
    count = 0
    owners = [n for n in ast.walk(tree) if isinstance(n, (ast.FunctionDef, ast.AsyncFunctionDef))] + [tree]
    done: Set[int] = set()
    for owner in owners:          # innermost functions first is not needed: each Try is rewritten once, by whoever meets it first
        for node in ast.walk(owner):
            for field in ('body', 'orelse', 'finalbody'):
                body = getattr(node, field, None)
                if not isinstance(body, list):
                    continue
                i = 0
                while i < len(body):
                    st = body[i]
                    if isinstance(st, ast.Try) and id(st) not in done and st.handlers and all(
                            len(h.body) == 1 and isinstance(h.body[0], ast.Raise) and h.body[0].exc is None and h.body[0].cause is None
                            for h in st.handlers):
                        done.add(id(st))
                        names = {h.name for h in st.handlers if h.name}
                        if names:
                            # (`except X as e: raise` bound a local: it is gone with the handler)
                            fn = next((f for f in owners if f is not tree and any(z is st for z in ast.walk(f))
                                       and not any(g is not f and isinstance(g, (ast.FunctionDef, ast.AsyncFunctionDef)) and any(z is st for z in ast.walk(g))
                                                   for g in ast.walk(f) if g is not f)), None)
                            if fn is not None:
                                fn._removed_locals = set(getattr(fn, '_removed_locals', set())) | names  # type: ignore[attr-defined]
                        inner = list(st.body) + list(st.orelse)
                        if st.finalbody:
                            st.body, st.handlers, st.orelse = inner, [], []
                        else:
                            body[i:i + 1] = inner
                            i += len(inner) - 1
                        count += 1
                    i += 1
    return count


def inline_record_methods(tree: ast.Module) -> int:
    """A NamedTuple / frozen dataclass with tiny methods (`def expired(self): return 0 <= self.timeout < time.time() -
    self.started`): a call `w.expired()` is that expression with `w` for `self`.  A method is read in place when its body is
    one `return <expr>`, it has plain positional parameters, its name is used for nothing else in the module, and every
    receiver is a plain name (so that it can stand for `self` several times).  Methods all of whose uses were read in
    place are dropped from the class, which is then a plain record for the record normalisations."""
    import copy
    import builtins
    count = 0
    recs: List[ast.ClassDef] = []
    for st in tree.body:
        if isinstance(st, ast.ClassDef):
            bases = [ast.unparse(b).split('.')[-1] for b in st.bases]
            dc = any(isinstance(d, ast.Call) and ast.unparse(d.func).split('.')[-1] == 'dataclass' for d in st.decorator_list)
            if (bases == ['NamedTuple'] and not st.keywords) or (dc and not bases):
                recs.append(st)
            elif st.name.startswith('_') and not st.decorator_list and not st.keywords and all(b_ in ('Generic', 'object') or b_.startswith('Generic[') for b_ in
                                                                                               [ast.unparse(b).split('.')[-1] for b in st.bases]):
                # a private state object (`class _Round: def __init__(self): self.inputs = set() ...`)
                if any(isinstance(b, ast.FunctionDef) and b.name == '__init__' for b in st.body):
                    recs.append(st)
    if not recs:
        return 0
    common = set()
    for t_ in (dict, list, set, str, tuple, bytes, object, int, float):
        common |= set(dir(t_))
    common |= {'set', 'clear', 'wait', 'is_set', 'put', 'get', 'put_nowait', 'get_nowait', 'join', 'task_done', 'cancel', 'done', 'result',
               'exception', 'acquire', 'release', 'locked', 'close', 'send', 'throw', 'submit', 'shutdown', 'start', 'run', 'stop'}
    for cls in recs:
        fields = {b.target.id for b in cls.body if isinstance(b, ast.AnnAssign) and isinstance(b.target, ast.Name)}
        for b in cls.body:
            if isinstance(b, ast.FunctionDef) and b.name == '__init__':
                fields |= {z.attr for z in ast.walk(b) if isinstance(z, ast.Attribute) and isinstance(z.ctx, ast.Store)
                           and isinstance(z.value, ast.Name) and z.value.id == b.args.args[0].arg}
        fields |= {b.name for b in cls.body if isinstance(b, (ast.FunctionDef, ast.AsyncFunctionDef))}      # (methods reached through self)
        for m in [b for b in cls.body if isinstance(b, ast.FunctionDef)]:
            body = [x for x in m.body if not (isinstance(x, ast.Expr) and isinstance(x.value, ast.Constant))]
            a = m.args
            stmt_form = len(body) == 1 and isinstance(body[0], ast.Expr) and isinstance(body[0].value, ast.Call)
            static = len(m.decorator_list) == 1 and ast.unparse(m.decorator_list[0]) == 'staticmethod'
            clsm = len(m.decorator_list) == 1 and ast.unparse(m.decorator_list[0]) == 'classmethod' and bool(m.args.args)
            if clsm:
                # `@classmethod def claim(cls): return cls(a, b)` called as `Cls.claim()`: the expression with the class for `cls`
                cbody = [x for x in m.body if not (isinstance(x, ast.Expr) and isinstance(x.value, ast.Constant))]
                ca = m.args
                uses_c = [z for z in ast.walk(tree) if isinstance(z, ast.Attribute) and z.attr == m.name]
                pars_c: Dict[int, ast.AST] = {}
                for z in ast.walk(tree):
                    for ch in ast.iter_child_nodes(z):
                        pars_c[id(ch)] = z
                if not uses_c and m.name not in common and not m.name.startswith('__') and not any(
                        isinstance(z, ast.Constant) and z.value == m.name for z in ast.walk(tree)):
                    cls.body.remove(m)          # (every call was already read in place: nothing names it any more)
                    continue
                okc = (len(cbody) == 1 and isinstance(cbody[0], ast.Return) and cbody[0].value is not None and len(ca.args) == 1
                       and not ca.vararg and not ca.kwarg and not ca.kwonlyargs and m.name not in common and bool(uses_c)
                       and all(isinstance(u.value, ast.Name) and u.value.id == cls.name and isinstance(pars_c.get(id(u)), ast.Call)
                               and pars_c[id(u)].func is u and not pars_c[id(u)].args and not pars_c[id(u)].keywords for u in uses_c))
                if okc:
                    cn = ca.args[0].arg
                    for u in uses_c:
                        c = pars_c[id(u)]
                        new = copy.deepcopy(cbody[0].value)
                        for z in ast.walk(new):
                            if isinstance(z, ast.Name) and z.id == cn:
                                z.id = cls.name
                            if hasattr(z, 'lineno'):
                                z.lineno, z.col_offset = c.lineno, c.col_offset
                                z.end_lineno, z.end_col_offset = getattr(c, 'end_lineno', c.lineno), getattr(c, 'end_col_offset', c.col_offset)
                        par = pars_c[id(c)]
                        for fld, val in ast.iter_fields(par):
                            if val is c:
                                setattr(par, fld, new)
                            elif isinstance(val, list):
                                for i_, x_ in enumerate(val):
                                    if x_ is c:
                                        val[i_] = new
                        count += 1
                    cls.body.remove(m)
                continue
            if (m.decorator_list and not static) or len(body) != 1 or not ((isinstance(body[0], ast.Return) and body[0].value is not None) or stmt_form) \
                    or a.vararg or a.kwarg or a.kwonlyargs or a.posonlyargs or a.defaults or (not a.args and not static) or m.name in common \
                    or m.name.startswith('__'):
                continue
            selfn = a.args[0].arg if not static else '\x00no-self'
            params = [x.arg for x in (a.args if static else a.args[1:])]
            expr = body[0].value
            # self is only read through its fields
            if any(isinstance(z, ast.Name) and z.id == selfn and not (isinstance(getattr(z, '_p', None), ast.Attribute)) for z in ()):
                continue
            ok_self = True
            for z in ast.walk(expr):
                for ch in ast.iter_child_nodes(z):
                    if isinstance(ch, ast.Name) and ch.id == selfn and not (isinstance(z, ast.Attribute) and z.value is ch and z.attr in fields):
                        ok_self = False
            if not ok_self:
                continue
            # every mention of the name in the module is a call on a plain name with the right number of arguments
            uses = [z for z in ast.walk(tree) if isinstance(z, ast.Attribute) and z.attr == m.name]
            other_defs = [z for z in ast.walk(tree) if isinstance(z, (ast.FunctionDef, ast.AsyncFunctionDef)) and z.name == m.name and z is not m]
            if not uses or other_defs:
                continue
            parents: Dict[int, ast.AST] = {}
            for z in ast.walk(tree):
                for ch in ast.iter_child_nodes(z):
                    parents[id(ch)] = z
            sites = []
            good = True
            for u in uses:
                c = parents.get(id(u))
                if not (isinstance(c, ast.Call) and c.func is u and isinstance(u.value, ast.Name) and len(c.args) == len(params)
                        and not c.keywords and not any(isinstance(x, ast.Starred) for x in c.args)):
                    good = False
                    break
                if stmt_form and not isinstance(parents.get(id(c)), ast.Expr):
                    good = False        # (a method without a result, used for its result)
                    break
                if any(sum(1 for z in ast.walk(expr) if isinstance(z, ast.Name) and z.id == prm) > 1 and not isinstance(arg, (ast.Name, ast.Constant))
                       for prm, arg in zip(params, c.args)):
                    good = False        # (an argument that would be evaluated twice)
                    break
                sites.append(c)
            if not good:
                continue
            for c in sites:
                recv = c.func.value.id
                amap = dict(zip(params, c.args))

                class R(ast.NodeTransformer):
                    def visit_Name(self, node: ast.Name):
                        if node.id == selfn:
                            return ast.copy_location(ast.Name(id=recv, ctx=node.ctx), node)
                        if node.id in amap and isinstance(node.ctx, ast.Load):
                            return ast.copy_location(copy.deepcopy(amap[node.id]), node)
                        return node
                new = R().visit(copy.deepcopy(expr))
                for z in ast.walk(new):
                    if hasattr(z, 'lineno'):
                        z.lineno, z.col_offset = c.lineno, c.col_offset
                        z.end_lineno, z.end_col_offset = getattr(c, 'end_lineno', c.lineno), getattr(c, 'end_col_offset', c.col_offset)
                par = parents[id(c)]
                for fld, val in ast.iter_fields(par):
                    if val is c:
                        setattr(par, fld, new)
                    elif isinstance(val, list):
                        for i, x in enumerate(val):
                            if x is c:
                                val[i] = new
                count += 1
            cls.body.remove(m)
            if not cls.body:
                cls.body.append(ast.Pass())
    return count


def scalarize_records(tree: ast.Module) -> int:
    """`w = (a, f(), c)` bound once in a function and read only as `w[0]`, `w[1]`, ... (what a NamedTuple variable has become
    by now): one local per element, assigned where the tuple was built - `w_0 = a; w_1 = f(); w_2 = c` - and read where the
    element was read.  Same values at the same moments; the elements no longer hide in an aggregate."""
    count = 0
    FN = (ast.FunctionDef, ast.AsyncFunctionDef)
    for fn in [n for n in ast.walk(tree) if isinstance(n, FN)]:
        nested: Set[int] = set()
        for ch in ast.walk(fn):
            if ch is not fn and isinstance(ch, FN + (ast.Lambda, ast.ClassDef)):
                nested |= {id(z) for z in ast.walk(ch)}
        parents: Dict[int, ast.AST] = {}
        for z in ast.walk(fn):
            for c_ in ast.iter_child_nodes(z):
                parents[id(c_)] = z
        stores: Dict[str, List[ast.Name]] = {}
        loads: Dict[str, List[ast.Name]] = {}
        for z in ast.walk(fn):
            if isinstance(z, ast.Name):
                (stores if isinstance(z.ctx, (ast.Store, ast.Del)) else loads).setdefault(z.id, []).append(z)
        a = fn.args
        params = {x.arg for x in a.posonlyargs + a.args + a.kwonlyargs} | ({a.vararg.arg} if a.vararg else set()) | ({a.kwarg.arg} if a.kwarg else set())
        for x, sts in list(stores.items()):
            if len(sts) != 1 or x in params or id(sts[0]) in nested:
                continue
            asg = parents.get(id(sts[0]))
            if not (isinstance(asg, ast.Assign) and len(asg.targets) == 1 and asg.targets[0] is sts[0] and isinstance(asg.value, ast.Tuple)
                    and asg.value.elts and not any(isinstance(e, ast.Starred) for e in asg.value.elts)):
                continue
            n = len(asg.value.elts)
            ok = bool(loads.get(x))
            for l in loads.get(x, []):
                p_ = parents.get(id(l))
                if id(l) in nested or not (isinstance(p_, ast.Subscript) and p_.value is l and isinstance(p_.ctx, ast.Load)
                                           and isinstance(p_.slice, ast.Constant) and isinstance(p_.slice.value, int)
                                           and not isinstance(p_.slice.value, bool) and 0 <= p_.slice.value < n):
                    ok = False
            if not ok or any(isinstance(z, (ast.Global, ast.Nonlocal)) and x in z.names for z in ast.walk(fn)):
                continue
            holder = parents.get(id(asg))
            blk = None
            for f_ in ('body', 'orelse', 'finalbody'):
                v_ = getattr(holder, f_, None)
                if isinstance(v_, list) and asg in v_:
                    blk = v_
            if blk is None:
                continue
            names = [f'{x}\u00b7{i}' for i in range(n)]
            new_stmts = []
            for nm, e in zip(names, asg.value.elts):
                st = ast.Assign(targets=[ast.copy_location(ast.Name(id=nm, ctx=ast.Store()), asg)], value=e)
                ast.copy_location(st, asg)
                new_stmts.append(st)
            i0 = blk.index(asg)
            blk[i0:i0 + 1] = new_stmts
            for l in loads.get(x, []):
                p_ = parents[id(l)]
                new = ast.copy_location(ast.Name(id=names[p_.slice.value], ctx=ast.Load()), p_)
                pp = parents[id(p_)]
                for f_, v_ in ast.iter_fields(pp):
                    if v_ is p_:
                        setattr(pp, f_, new)
                    elif isinstance(v_, list):
                        for j, y in enumerate(v_):
                            if y is p_:
                                v_[j] = new
            fn._added_locals = set(getattr(fn, '_added_locals', set())) | set(names)  # type: ignore[attr-defined]
            fn._removed_locals = set(getattr(fn, '_removed_locals', set())) | {x}  # type: ignore[attr-defined]
            count += 1
    return count


def condition_generators_to_while(tree: ast.Module) -> int:
    """`for _ in self._until_done():` over a private generator method `while True: if C: return; yield` (or the flipped
    `while not C: yield`), target unused: the generator yields once per round for as long as C is false - the loop is
    `while not C:` (C over `self` only, evaluated at the same moments: before each round)."""
    import copy
    count = 0
    gens: Dict[str, ast.expr] = {}     # method name -> condition under which the loop goes on
    for cls in [n for n in ast.walk(tree) if isinstance(n, ast.ClassDef)]:
        for m in [b for b in cls.body if isinstance(b, ast.FunctionDef)]:
            if m.decorator_list or len(m.args.args) != 1 or m.args.vararg or m.args.kwarg or m.args.kwonlyargs:
                continue
            body = [x for x in m.body if not (isinstance(x, ast.Expr) and isinstance(x.value, ast.Constant))]
            if len(body) != 1 or not isinstance(body[0], ast.While) or body[0].orelse:
                continue
            w = body[0]
            y_ok = lambda st: isinstance(st, ast.Expr) and isinstance(st.value, ast.Yield) and st.value.value is None
            cont = None
            if isinstance(w.test, ast.Constant) and w.test.value is True and len(w.body) == 2 and isinstance(w.body[0], ast.If) \
                    and not w.body[0].orelse and len(w.body[0].body) == 1 and isinstance(w.body[0].body[0], (ast.Return, ast.Break)) \
                    and getattr(w.body[0].body[0], 'value', None) is None and y_ok(w.body[1]):
                cont = ast.UnaryOp(op=ast.Not(), operand=w.body[0].test)
            elif len(w.body) == 1 and y_ok(w.body[0]):
                cont = w.test
            if cont is None:
                continue
            # the condition speaks about self only
            if any(isinstance(z, ast.Name) and z.id not in (m.args.args[0].arg,) and not z.id[0].isupper() and z.id not in ('True', 'False', 'None')
                   for z in ast.walk(cont)):
                continue
            gens[m.name] = cont
    if not gens:
        return 0
    for fn in [n for n in ast.walk(tree) if isinstance(n, (ast.FunctionDef, ast.AsyncFunctionDef))]:
        for node in ast.walk(fn):
            for field in ('body', 'orelse', 'finalbody'):
                blk = getattr(node, field, None)
                if not isinstance(blk, list):
                    continue
                for i, st in enumerate(blk):
                    if isinstance(st, ast.For) and not st.orelse and isinstance(st.target, ast.Name) and isinstance(st.iter, ast.Call) \
                            and isinstance(st.iter.func, ast.Attribute) and isinstance(st.iter.func.value, ast.Name) and st.iter.func.value.id == 'self' \
                            and st.iter.func.attr in gens and not st.iter.args and not st.iter.keywords:
                        t = st.target.id
                        if any(isinstance(z, ast.Name) and z.id == t and isinstance(z.ctx, ast.Load) for b_ in st.body for z in ast.walk(b_)):
                            continue
                        test = copy.deepcopy(gens[st.iter.func.attr])
                        for z in ast.walk(test):
                            ast.copy_location(z, st.iter)
                        wl = ast.While(test=test, body=st.body, orelse=[])
                        ast.copy_location(wl, st)
                        blk[i] = wl
                        if not any(isinstance(z, ast.Name) and z.id == t and isinstance(z.ctx, ast.Store) for z in ast.walk(fn)):
                            fn._removed_locals = set(getattr(fn, '_removed_locals', set())) | {t}  # type: ignore[attr-defined]
                        count += 1
    return count


def fold_none_fields(tree: ast.Module) -> int:
    """After an object has been taken apart (deobjectify): a field local `b__via` bound exactly once in its function - to
    `None`, or to a name that is itself bound once to a fresh library object (`aio.get_running_loop()`, `Queue()`, `Lock()`,
    ...) - makes `b__via is None` a constant; the `if` it decides is replaced by the branch taken.  This is what is left of
    `def push(self, x): if self.via is None: ... else: ...` for an object built as `_Feed(q)` or `_Feed(q, loop)`."""
    count = 0
    FN = (ast.FunctionDef, ast.AsyncFunctionDef)
    FRESH = ('get_running_loop', 'get_event_loop', 'new_event_loop', 'Queue', 'LifoQueue', 'Lock', 'RLock', 'Event', 'object',
             'Semaphore', 'Condition', 'create_future', 'ThreadPoolExecutor')
    for fn in [n for n in ast.walk(tree) if isinstance(n, FN) and getattr(n, '_deobjectified', False)]:
        stores: Dict[str, List[ast.AST]] = {}
        parents: Dict[int, ast.AST] = {}
        for z in ast.walk(fn):
            for c_ in ast.iter_child_nodes(z):
                parents[id(c_)] = z
        for z in ast.walk(fn):
            if isinstance(z, ast.Name) and isinstance(z.ctx, (ast.Store, ast.Del)):
                stores.setdefault(z.id, []).append(z)
            elif isinstance(z, ast.arg):
                stores.setdefault(z.arg, []).append(z)
                stores.setdefault(z.arg, []).append(z)      # a parameter is never "bound once to a known value"

        def single_value(nm: str) -> Optional[ast.expr]:
            sts = stores.get(nm, [])
            if len(sts) != 1 or not isinstance(sts[0], ast.Name):
                return None
            a = parents.get(id(sts[0]))
            if isinstance(a, ast.Assign) and len(a.targets) == 1 and a.targets[0] is sts[0]:
                return a.value
            if isinstance(a, ast.AnnAssign) and a.target is sts[0]:
                return a.value
            return None

        def is_none(nm: str, depth: int = 0) -> Optional[bool]:
            v = single_value(nm)
            if v is None:
                return None
            if isinstance(v, ast.Constant):
                return v.value is None
            if isinstance(v, ast.Call):
                tail = ast.unparse(v.func).split('.')[-1]
                return False if tail in FRESH else None
            if isinstance(v, ast.Name) and depth < 3:
                return is_none(v.id, depth + 1)
            return None

        changed = True
        while changed:
            changed = False
            for node in ast.walk(fn):
                for field in ('body', 'orelse', 'finalbody'):
                    blk = getattr(node, field, None)
                    if not isinstance(blk, list):
                        continue
                    for i, st in enumerate(blk):
                        if not isinstance(st, ast.If):
                            continue
                        t = st.test
                        if isinstance(t, ast.Compare) and len(t.ops) == 1 and isinstance(t.ops[0], (ast.Is, ast.IsNot)) \
                                and isinstance(t.left, ast.Name) and '__' in t.left.id and isinstance(t.comparators[0], ast.Constant) \
                                and t.comparators[0].value is None:
                            k = is_none(t.left.id)
                            if k is None:
                                continue
                            truth = k if isinstance(t.ops[0], ast.Is) else not k
                            chosen = st.body if truth else st.orelse
                            blk[i:i + 1] = chosen or [ast.copy_location(ast.Pass(), st)]
                            count += 1
                            changed = True
                            break
                    if changed:
                        break
                if changed:
                    break
    return count


def normalise_call_spellings(tree: ast.Module) -> int:
    """Spellings of one call: (1) defaults written out - `lock.acquire(blocking=True, timeout=-1)`, `q.get(block=True,
    timeout=None)`, `future.result(timeout=None)`, `thread.join(timeout=None)`, `event.wait(timeout=None)` are the calls
    without arguments; (2) keywords for the leading positional parameters of `wait_for(aw, timeout=t)` and
    `lock.acquire(blocking=b, timeout=t)` are those positions; (3) a callback with its arguments pre-bound by
    `functools.partial` and handed to a scheduler that takes `callback, *args` - `call_soon_threadsafe(partial(f, x))`,
    `call_later(t, partial(f, x))`, `run_in_executor(pool, partial(f, x))`, `pool.submit(partial(f, x))` - is the
    scheduler called with `f, x` (no keywords in the partial)."""
    count = [0]
    partial_names = {'partial'}
    for st in ast.walk(tree):
        if isinstance(st, ast.ImportFrom) and st.module == 'functools':
            for al in st.names:
                if al.name == 'partial':
                    partial_names.add(al.asname or al.name)

    def is_partial(e) -> bool:
        return isinstance(e, ast.Call) and not e.keywords and e.args and not any(isinstance(a, ast.Starred) for a in e.args) and (
            (isinstance(e.func, ast.Name) and e.func.id in partial_names) or
            (isinstance(e.func, ast.Attribute) and e.func.attr == 'partial' and isinstance(e.func.value, ast.Name) and e.func.value.id == 'functools'))

    def const(e, v) -> bool:
        return isinstance(e, ast.Constant) and e.value is v if v is None or isinstance(v, bool) else (
            (isinstance(e, ast.Constant) and e.value == v and not isinstance(e.value, bool)) or
            (isinstance(e, ast.UnaryOp) and isinstance(e.op, ast.USub) and isinstance(e.operand, ast.Constant) and -e.operand.value == v))

    DEFAULTS = {'acquire': [('blocking', True), ('timeout', -1)], 'get': [('block', True), ('timeout', None)], 'result': [('timeout', None)],
                'join': [('timeout', None)], 'wait': [('timeout', None)], 'put': None}
    SCHED = {'call_soon_threadsafe': 0, 'call_soon': 0, 'call_later': 1, 'call_at': 1, 'run_in_executor': 1, 'submit': 0}

    class R(ast.NodeTransformer):
        def visit_Call(self, n: ast.Call):
            self.generic_visit(n)
            f = n.func
            attr = f.attr if isinstance(f, ast.Attribute) else (f.id if isinstance(f, ast.Name) else None)
            if isinstance(f, ast.Attribute) and DEFAULTS.get(attr) and (n.args or n.keywords) and not any(isinstance(a, ast.Starred) for a in n.args) \
                    and not any(k.arg is None for k in n.keywords):
                spec = DEFAULTS[attr]
                if len(n.args) <= len(spec):
                    given = {nm: a for (nm, _), a in zip(spec, n.args)}
                    ok = True
                    for k in n.keywords:
                        if k.arg not in dict(spec) or k.arg in given:
                            ok = False
                        given[k.arg] = k.value
                    if ok and all(const(given[nm], dv) for nm, dv in spec if nm in given):
                        n.args, n.keywords = [], []
                        count[0] += 1
                        return n
                    if ok and attr == 'acquire' and n.keywords:
                        # keywords for the leading positions
                        order = [nm for nm, _ in spec]
                        if all(nm in given for nm in order[:len(given)]):
                            n.args, n.keywords = [given[nm] for nm in order[:len(given)]], []
                            count[0] += 1
                            return n
            if attr == 'wait_for' and len(n.args) == 1 and len(n.keywords) == 1 and n.keywords[0].arg == 'timeout':
                n.args, n.keywords = [n.args[0], n.keywords[0].value], []
                count[0] += 1
                return n
            if isinstance(f, ast.Attribute) and attr in SCHED and not n.keywords and len(n.args) == SCHED[attr] + 1 and is_partial(n.args[-1]):
                inner = n.args[-1]
                n.args = n.args[:-1] + list(inner.args)
                count[0] += 1
                return n
            return n
    R().visit(tree)
    return count[0]


def fold_negations(tree: ast.Module) -> int:
    """`not (a is not b)` -> `a is b`, `not (a is b)` -> `a is not b`, likewise `in` / `not in` (these pairs are exact
    negations of each other for every operand; `==` / `!=` are not and stay); `not not e` -> `e` where only the truth of the
    expression is used (the test of an if / while / conditional expression / assert, an operand of `not`)."""
    count = [0]
    flip = {ast.Is: ast.IsNot, ast.IsNot: ast.Is, ast.In: ast.NotIn, ast.NotIn: ast.In}

    def neg(e: ast.expr) -> Optional[ast.expr]:
        if isinstance(e, ast.Compare) and len(e.ops) == 1 and type(e.ops[0]) in flip:
            c = ast.Compare(left=e.left, ops=[flip[type(e.ops[0])]()], comparators=e.comparators)
            return ast.copy_location(c, e)
        return None

    class R(ast.NodeTransformer):
        def visit_UnaryOp(self, node: ast.UnaryOp):
            self.generic_visit(node)
            if isinstance(node.op, ast.Not):
                r = neg(node.operand)
                if r is not None:
                    count[0] += 1
                    return r
                inner = node.operand
                if isinstance(inner, ast.UnaryOp) and isinstance(inner.op, ast.Not):
                    r2 = neg(inner.operand)
                    if r2 is not None:       # not not (a is b): still a bool
                        count[0] += 1
                        return inner.operand
            return node

    R().visit(tree)
    # truth-only positions
    for n in ast.walk(tree):
        if isinstance(n, (ast.If, ast.While, ast.IfExp, ast.Assert)):
            t = n.test
            while (isinstance(t, ast.UnaryOp) and isinstance(t.op, ast.Not)
                   and isinstance(t.operand, ast.UnaryOp) and isinstance(t.operand.op, ast.Not)):
                t = t.operand.operand
                count[0] += 1
            n.test = t
    return count[0]


def fold_constant_choices(tree: ast.Module) -> int:
    """`(A if c else B) is A` is `c`, `... is B` is `not c` (A, B distinct named constants / literals; also ==, !=, is not):
    what is left of `_Outcome.of(result) is _Outcome.FAILURE` once the one-line classmethod has been read in place."""
    count = [0]

    def key(v: ast.AST) -> Optional[str]:
        d = _dotted_expr(v)
        if d is not None and '.' in d and d.split('.')[-1].isupper():
            return d
        if isinstance(v, ast.Constant) and isinstance(v.value, (str, int)) and not isinstance(v.value, bool):
            return repr(v.value)
        return None

    class R(ast.NodeTransformer):
        def visit_Compare(self, n: ast.Compare):
            self.generic_visit(n)
            if len(n.ops) != 1 or not isinstance(n.ops[0], (ast.Is, ast.IsNot, ast.Eq, ast.NotEq)):
                return n
            for x, y in ((n.left, n.comparators[0]), (n.comparators[0], n.left)):
                if isinstance(x, ast.IfExp):
                    ka, kb, k = key(x.body), key(x.orelse), key(y)
                    if ka and kb and k and ka != kb and k in (ka, kb):
                        positive = isinstance(n.ops[0], (ast.Is, ast.Eq)) == (k == ka)
                        new = x.test if positive else ast.UnaryOp(op=ast.Not(), operand=x.test)
                        count[0] += 1
                        return ast.copy_location(new, n)
            return n
    R().visit(tree)
    if count[0]:
        ast.fix_missing_locations(tree)
    return count[0]



def drop_identity_conversions(tree: ast.Module) -> int:
    """Conversions that return their argument unchanged: `float(<number literal>)` / `int(<int literal>)` are the literal,
    `float(time.time())` / `float(time.monotonic())` is the clock reading (already a float), `tuple(args)` of a function's own
    `*args` is that tuple."""
    count = [0]
    clocks = {'time.time', 'time.monotonic', 'time.perf_counter', 'monotonic', 'perf_counter'}

    class R(ast.NodeTransformer):
        def __init__(self):
            self.varargs = [set()]

        def _fn(self, node):
            va = {node.args.vararg.arg} if node.args.vararg else set()
            # a re-bound *args is not the caller's tuple any more
            if va and any(isinstance(x, ast.Name) and x.id in va and isinstance(x.ctx, (ast.Store, ast.Del)) for x in ast.walk(node)):
                va = set()
            self.varargs.append(va)
            self.generic_visit(node)
            self.varargs.pop()
            return node
        visit_FunctionDef = visit_AsyncFunctionDef = _fn

        def visit_Call(self, n: ast.Call):
            self.generic_visit(n)
            if not (isinstance(n.func, ast.Name) and len(n.args) == 1 and not n.keywords):
                return n
            a = n.args[0]
            if n.func.id == 'float' and isinstance(a, ast.Constant) and isinstance(a.value, (int, float)) and not isinstance(a.value, bool):
                count[0] += 1
                return ast.copy_location(ast.Constant(value=a.value if isinstance(a.value, float) or abs(a.value) > 2 ** 53 else a.value), n)
            if n.func.id == 'int' and isinstance(a, ast.Constant) and isinstance(a.value, int) and not isinstance(a.value, bool):
                count[0] += 1
                return ast.copy_location(ast.Constant(value=a.value), n)
            if n.func.id == 'float' and isinstance(a, ast.Call) and not a.args and not a.keywords and (_dotted_expr(a.func) or '') in clocks:
                count[0] += 1
                return a
            if n.func.id == 'tuple' and isinstance(a, ast.Name) and a.id in self.varargs[-1]:
                count[0] += 1
                return a
            return n
    R().visit(tree)
    if count[0]:
        ast.fix_missing_locations(tree)
    return count[0]



def inline_empty_subclasses(tree: ast.Module) -> int:
    """`class _Registry(WeakKeyDictionary): <docstring only>` - a private subclass of a library / builtin container that adds nothing -
    is that container wherever it is instantiated: `_Registry()` reads `WeakKeyDictionary()`.  (Generic aliases of typing are
    the builtin they stand for: `Dict[int, Lock]` -> `dict`.)"""
    TYPING = {'Dict': 'dict', 'List': 'list', 'Set': 'set', 'FrozenSet': 'frozenset', 'Deque': None, 'DefaultDict': None, 'OrderedDict': None}
    count = [0]
    cands: Dict[str, ast.expr] = {}
    for st in tree.body:
        if not (isinstance(st, ast.ClassDef) and st.name.startswith('_') and len(st.bases) == 1 and not st.keywords and not st.decorator_list):
            continue
        body = [x for x in st.body if not (isinstance(x, ast.Expr) and isinstance(x.value, ast.Constant)) and not isinstance(x, ast.Pass)
                and not (isinstance(x, ast.Assign) and len(x.targets) == 1 and isinstance(x.targets[0], ast.Name) and x.targets[0].id == '__slots__')]
        if body:
            continue
        b = st.bases[0]
        if isinstance(b, ast.Subscript):
            b = b.value
        d = _dotted_expr(b)
        if d is None:
            continue
        last = d.split('.')[-1]
        if last in TYPING:
            if TYPING[last] is None:
                continue
            b = ast.Name(id=TYPING[last], ctx=ast.Load())
        elif last in ('NamedTuple', 'Protocol', 'Enum', 'Generic', 'object', 'Exception', 'BaseException') or last.endswith('Error'):
            continue
        cands[st.name] = b
    if not cands:
        return 0
    # only classes that are never subclassed further, never used in isinstance / except, only called
    for x in ast.walk(tree):
        if isinstance(x, ast.ClassDef):
            for bb in x.bases:
                for y in ast.walk(bb):
                    if isinstance(y, ast.Name) and y.id in cands:
                        cands.pop(y.id, None)
    set_alias_parents(tree)

    class R(ast.NodeTransformer):
        def visit_Call(self, n: ast.Call):
            self.generic_visit(n)
            if isinstance(n.func, ast.Name) and n.func.id in cands:
                new = _clone_expr(cands[n.func.id])
                for y in ast.walk(new):
                    ast.copy_location(y, n.func)
                n.func = new
                count[0] += 1
            return n
    R().visit(tree)
    if count[0]:
        ast.fix_missing_locations(tree)
    return count[0]



def calls_to_comprehensions(tree: ast.Module) -> int:
    """`list(<generator expression>)` is the list comprehension, `set(...)` the set comprehension, `dict((k, v) for ...)` the dict
    comprehension (the builtins must not be shadowed in the module)."""
    shadowed = {x.id for x in ast.walk(tree) if isinstance(x, ast.Name) and isinstance(x.ctx, (ast.Store, ast.Del)) and x.id in ('list', 'set', 'dict')} | \
               {x.name for x in ast.walk(tree) if isinstance(x, _FN + (ast.ClassDef,)) and x.name in ('list', 'set', 'dict')}
    count = [0]

    class R(ast.NodeTransformer):
        def visit_Call(self, n: ast.Call):
            self.generic_visit(n)
            if not (isinstance(n.func, ast.Name) and n.func.id in ('list', 'set', 'dict') and n.func.id not in shadowed and len(n.args) == 1
                    and not n.keywords and isinstance(n.args[0], ast.GeneratorExp)):
                return n
            ge = n.args[0]
            if n.func.id == 'list':
                new = ast.ListComp(elt=ge.elt, generators=ge.generators)
            elif n.func.id == 'set':
                new = ast.SetComp(elt=ge.elt, generators=ge.generators)
            elif isinstance(ge.elt, ast.Tuple) and len(ge.elt.elts) == 2 and not any(isinstance(x, ast.Starred) for x in ge.elt.elts):
                new = ast.DictComp(key=ge.elt.elts[0], value=ge.elt.elts[1], generators=ge.generators)
            else:
                return n
            count[0] += 1
            return ast.copy_location(new, n)
    R().visit(tree)
    if count[0]:
        ast.fix_missing_locations(tree)
    return count[0]
