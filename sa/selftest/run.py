"""Checker self-validation (DESIGN 6): seeded breaks must be reported by the
named rule, benign twins must stay silent.  Works on scratch copies of
/repo/aiuti under $TMPDIR (outside /repo and /verif), removed afterwards.

  python -m sa.selftest.run [PROP ...] [--jobs N] [--tests] [--list]

--tests additionally runs the repository's test-suite on every mutant (slow;
used once at development time, results recorded in corpus_results.json).
"""
from __future__ import annotations

import concurrent.futures as cf
import json
import os
import py_compile
import shutil
import subprocess
import sys
import tempfile
from typing import Dict, List, Optional, Tuple

from ..load import REPO, UNITS

HERE = os.path.dirname(os.path.abspath(__file__))
VERIF = os.path.dirname(os.path.dirname(HERE))
PY = sys.executable


def apply_edits(root: str, edits: List[Tuple[str, str, str]]) -> Optional[str]:
    """Apply (file, old, new) edits; returns an error string if an anchor is
    missing or ambiguous."""
    for ed in edits:
        rel, old, new = ed[:3]
        p = os.path.join(root, rel)
        s = open(p).read()
        c = s.count(old)
        if len(ed) > 3 and ed[3] == 'all':
            if c < 1:
                return f'anchor not found in {rel}: {old[:50]!r}'
            import re
            s = re.sub(r'\b' + re.escape(old) + r'\b', new, s)
            open(p, 'w').write(s)
        else:
            if c != 1:
                return f'anchor matched {c} times in {rel}: {old[:50]!r}'
            open(p, 'w').write(s.replace(old, new))
        try:
            compile(open(p).read(), p, 'exec')
        except SyntaxError as e:
            return f'mutant does not compile: {e}'
    return None


def make_copy(base: str) -> str:
    d = tempfile.mkdtemp(prefix='aiuti-selftest-', dir=base)
    for rel in UNITS:
        dst = os.path.join(d, rel)
        os.makedirs(os.path.dirname(dst), exist_ok=True)
        shutil.copy(os.path.join(REPO, rel), dst)
    return d


def run_one(args) -> dict:
    m, base, with_tests = args
    d = make_copy(base)
    try:
        err = apply_edits(d, m['edits'])
        if err:
            return {'id': m['id'], 'status': 'skipped', 'why': err}
        res = {'id': m['id'], 'status': 'ok', 'props': {}}
        for prop in m['props']:
            env = dict(os.environ, AIUTI_REPO=d, AIUTI_EVIDENCE_DIR=os.path.join(d, 'evidence'),
                       PYTHONPATH=VERIF)
            pr = subprocess.run([PY, '-m', 'sa.check', prop], cwd=VERIF, env=env,
                                capture_output=True, text=True, timeout=300)
            out = pr.stdout + pr.stderr
            fired = sorted({ln.split('rule=')[1].split()[0] for ln in out.splitlines()
                            if ln.strip().startswith('violation rule=')})
            res['props'][prop] = {'exit': pr.returncode, 'rules': fired,
                                  'tail': out.strip().splitlines()[-1:] }
        kind = m['kind']
        if kind == 'break':
            exp = m.get('rules') or []
            hit = any(v['exit'] == 1 and (not exp or set(exp) & set(v['rules']))
                      for v in res['props'].values())
            res['pass'] = hit
        else:
            res['pass'] = all(v['exit'] == 0 for v in res['props'].values())
        return res
    finally:
        shutil.rmtree(d, ignore_errors=True)


def main(argv: List[str]) -> int:
    from . import corpus
    jobs = 16
    props = [a for a in argv if not a.startswith('--') and not a.isdigit()]
    if '--jobs' in argv:
        jobs = int(argv[argv.index('--jobs') + 1])
    ms = [m for m in corpus.all_mutants() if not props or set(props) & set(m['props'])]
    if props:
        for m in ms:
            m['props'] = [p for p in m['props'] if p in props]
    if '--list' in argv:
        for m in ms:
            print(m['id'], m['kind'], m['props'], m.get('rules'))
        return 0
    base = tempfile.mkdtemp(prefix='aiuti-selftest-root-')
    try:
        with cf.ThreadPoolExecutor(jobs) as ex:
            results = list(ex.map(run_one, [(m, base, False) for m in ms]))
    finally:
        shutil.rmtree(base, ignore_errors=True)
    bad = 0
    for m, r in zip(ms, results):
        if r['status'] == 'skipped':
            print(f'SKIP  {m["id"]}: {r["why"]}')
            continue
        tag = 'ok  ' if r['pass'] else 'FAIL'
        if not r['pass']:
            bad += 1
        detail = ' '.join(f'{p}:exit={v["exit"]},{"/".join(v["rules"])}' for p, v in r['props'].items())
        print(f'{tag}  {m["kind"]:6s} {m["id"]}: {detail}' + ('' if r['pass'] else f'  expected {m.get("rules")}'))
    n_break = sum(1 for m in ms if m['kind'] == 'break')
    print(f'selftest: {len(ms)} variants ({n_break} seeded breaks, {len(ms) - n_break} benign twins), {bad} failures')
    return 0 if bad == 0 else 2


if __name__ == '__main__':
    sys.exit(main(sys.argv[1:]))
