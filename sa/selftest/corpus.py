"""Seeded breaks and benign twins (DESIGN 6).  Every entry is a list of
(file, old, new) textual edits with a unique anchor on today's tree; a missing
anchor makes the variant 'skipped' (never a verdict about /repo)."""
from __future__ import annotations

from typing import Dict, List

A = 'aiuti/asyncio.py'
F = 'aiuti/filelock.py'
I = 'aiuti/itertools.py'
P = 'aiuti/parsing.py'

_M: List[dict] = []


def B(mid: str, props, rules, *edits) -> None:
    _M.append({'id': mid, 'kind': 'break', 'props': list(props), 'rules': list(rules), 'edits': list(edits)})


def T(mid: str, props, *edits) -> None:
    _M.append({'id': mid, 'kind': 'twin', 'props': list(props), 'rules': [], 'edits': list(edits)})


def all_mutants() -> List[dict]:
    import copy
    return copy.deepcopy(_M)


# ---------------------------------------------------------------------------
# threadsafe_async_cache
# ---------------------------------------------------------------------------
GUARDED_DEL = """                        if events.get(key, (None, None))[1] is event:
                            del events[key]
"""

B('cache-unguarded-del', ['C01', 'C06'], ['C01-R7', 'C06-R3'],
  (A, GUARDED_DEL, "                        del events[key]\n"))
B('cache-drop-locked-reprobe', ['C01'], ['C01-R2'],
  (A, """                try:  # verify nothing cached while waiting for lock
                    return _cache[key]
                except KeyError:
                    pass
""", ""))
B('cache-unmark-outside-lock', ['C01'], ['C01-R1'],
  (A, """                    with event_making_lock:
                        # Wake up any waiting tasks
                        event.set()
""", """                    if True:
                        # Wake up any waiting tasks
                        event.set()
"""))
B('cache-publish-after-unmark', ['C01'], ['C01-R6'],
  (A, """                else:
                    _cache[key] = result  # Cache for other tasks
                finally:""", """                finally:"""),
  (A, """                return result

            # Need to wait""", """                _cache[key] = result
                return result

            # Need to wait"""))
B('cache-takeover-running', ['C01'], ['C01-R4'],
  (A, "or not caching_loop.is_running()):", "or caching_loop.is_running()):"))
B('cache-waiter-calls-func', ['C01'], ['C01-R5'],
  (A, """            except aio.TimeoutError:  # Possible original task lost?
                pass  # Need to loop around and check""",
   """            except aio.TimeoutError:  # Possible original task lost?
                return await _func(*args, **kwargs)"""))
B('cache-return-none', ['C01'], ['C01-R8'],
  (A, "                return result\n\n            # Need to wait", "                return None\n\n            # Need to wait"))
B('cache-cleanup-only-on-success', ['C05'], ['C05-R1'],
  (A, """                else:
                    _cache[key] = result  # Cache for other tasks
                finally:
                    with event_making_lock:""", """                else:
                    _cache[key] = result  # Cache for other tasks
                    with event_making_lock:"""))
B('cache-drop-event-set', ['C05'], ['C05-R1'],
  (A, "                        event.set()\n", "                        pass\n"))
B('cache-wait-direct-across-loops', ['C05'], ['C05-R3'],
  (A, "            if running_loop is not caching_loop:\n", "            if running_loop is caching_loop:\n"))
B('cache-bridge-failure-raises', ['C05'], ['C05-R4'],
  (A, "                    continue  # loop around and try again", "                    raise"))
B('cache-unbounded-wait', ['C05'], ['C05-R5'],
  (A, "aio.wait_for(wait_event, 60)", "aio.wait_for(wait_event, None)"))
B('cache-wait-600', ['C05'], ['C05-R5'],
  (A, "aio.wait_for(wait_event, 60)", "aio.wait_for(wait_event, 600)"))
B('cache-guard-without-closed', ['C05'], ['C05-R7'],
  (A, """                    if (caching_loop.is_closed()
                            or not caching_loop.is_running()):""", """                    if (not caching_loop.is_closed()
                            and not caching_loop.is_running()):"""))
B('cache-guard-and', ['C05'], ['C05-R7'],
  (A, """                    if (caching_loop.is_closed()
                            or not caching_loop.is_running()):""", """                    if (caching_loop.is_closed()
                            and not caching_loop.is_running()):"""))
B('cache-timeout-returns', ['C05', 'C01'], ['C05-R5', 'C05-R6', 'C01-R8'],
  (A, """            except aio.TimeoutError:  # Possible original task lost?
                pass  # Need to loop around and check""", """            except aio.TimeoutError:  # Possible original task lost?
                return None"""))
B('cache-caches-exception', ['C06'], ['C06-R1'],
  (A, """                except Exception:
                    raise  # Bubble any errors without caching""", """                except Exception as exc:
                    _cache[key] = exc
                    raise  # Bubble any errors without caching"""))
B('cache-swallows-exception', ['C06'], ['C06-R2'],
  (A, """                except Exception:
                    raise  # Bubble any errors without caching""", """                except Exception:
                    continue"""))
B('cache-no-shield', ['C06'], ['C06-R5'],
  (A, "                await aio.shield(waiter)", "                await waiter"))
B('cache-clears-event', ['C06'], ['C06-R5', 'C06-R2'],
  (A, """                if not waiter.done():
                    waiter.cancel()""", """                if not waiter.done():
                    event.clear()
                    waiter.cancel()"""))
B('cache-key-args-only', ['C14'], ['C14-R1'],
  (A, "key = args, frozenset(kwargs.items())", "key = (args,)"))
B('cache-key-kw-ordered', ['C14'], ['C14-R1'],
  (A, "key = args, frozenset(kwargs.items())", "key = args, tuple(kwargs.items())"))
B('cache-key-kw-names-only', ['C14'], ['C14-R1'],
  (A, "key = args, frozenset(kwargs.items())", "key = args, frozenset(kwargs)"))
B('cache-key-hash', ['C14'], ['C14-R1'],
  (A, "key = args, frozenset(kwargs.items())", "key = hash((args, frozenset(kwargs.items())))"))
B('cache-key-first-arg', ['C14'], ['C14-R1'],
  (A, "key = args, frozenset(kwargs.items())", "key = args[:1], frozenset(kwargs.items())"))
B('cache-truthiness-select', ['C14'], ['C14-R4'],
  (A, "_cache: _CacheMap = cache if cache is not None else {}", "_cache: _CacheMap = cache or {}"))
B('cache-ignores-mapping', ['C14'], ['C14-R4'],
  (A, "_cache: _CacheMap = cache if cache is not None else {}", "_cache: _CacheMap = {}\n    cache = cache"))
B('cache-call-drops-kwargs', ['C14'], ['C14-R3'],
  (A, "result = await _func(*args, **kwargs)", "result = await _func(*args)"))
B('cache-second-store', ['C14'], ['C14-R4'],
  (A, "                    _cache[key] = result  # Cache for other tasks",
   "                    _cache[key] = result  # Cache for other tasks\n                    _wrapper.__dict__[key] = result"))

T('cache-rename-roles', ['C01', 'C05', 'C06', 'C14'],
  (A, "events", "inflight", 'all'), (A, "event_making_lock", "lk", 'all'), (A, "_cache", "_store", 'all'))
T('cache-acquire-release-form', ['C01', 'C05', 'C06'],
  (A, """                    with event_making_lock:
                        # Wake up any waiting tasks
                        event.set()
                        # Allow garbage collection and/or another loop
                        # to take over caching if this failed. Another
                        # loop may have taken over in the meantime, only
                        # remove the marker if it is still this task's.
                        if events.get(key, (None, None))[1] is event:
                            del events[key]
""", """                    event_making_lock.acquire()
                    try:
                        event.set()
                        if events.get(key, (None, None))[1] is event:
                            del events[key]
                    finally:
                        event_making_lock.release()
"""))
T('cache-pop-for-del', ['C01', 'C05', 'C06', 'C14'],
  (A, GUARDED_DEL, """                        if events.get(key, (None, None))[1] is event:
                            events.pop(key)
"""))
T('cache-ownership-by-tuple-eq', ['C01', 'C05', 'C06'],
  (A, GUARDED_DEL, """                        if events.get(key) == (caching_loop, event):
                            del events[key]
"""))
T('cache-ownership-negated', ['C01', 'C05', 'C06'],
  (A, GUARDED_DEL, """                        if events.get(key, (None, None))[1] is not event:
                            pass
                        else:
                            del events[key]
"""))
T('cache-key-sorted-tuple', ['C14'],
  (A, "key = args, frozenset(kwargs.items())", "key = (args, tuple(sorted(kwargs.items())))"))
T('cache-select-flipped', ['C14'],
  (A, "_cache: _CacheMap = cache if cache is not None else {}", "_cache: _CacheMap = {} if cache is None else cache"))
T('cache-set-after-del', ['C01', 'C05', 'C06'],
  (A, """                        event.set()
                        # Allow garbage collection and/or another loop
                        # to take over caching if this failed. Another
                        # loop may have taken over in the meantime, only
                        # remove the marker if it is still this task's.
                        if events.get(key, (None, None))[1] is event:
                            del events[key]
""", """                        if events.get(key, (None, None))[1] is event:
                            del events[key]
                        event.set()
"""))
T('cache-timeout-30', ['C05'],
  (A, "aio.wait_for(wait_event, 60)", "aio.wait_for(wait_event, 30.0)"))
T('cache-guard-demorgan', ['C01', 'C05'],
  (A, """                    if (caching_loop.is_closed()
                            or not caching_loop.is_running()):""",
   """                    if not (caching_loop.is_running()
                            and not caching_loop.is_closed()):"""))
