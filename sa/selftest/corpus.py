"""Seeded breaks and benign twins (DESIGN 6).  Every entry is a list of
(file, old, new) textual edits with a unique anchor on today's tree; a missing
anchor makes the variant 'skipped' (never a verdict about /repo)."""
from __future__ import annotations

from typing import Dict, List

A = 'aiuti/asyncio.py'
F = 'aiuti/filelock.py'
I = 'aiuti/itertools.py'
P = 'aiuti/parsing.py'

_M: List[dict] = []


def B(mid: str, props, rules, *edits) -> None:
    _M.append({'id': mid, 'kind': 'break', 'props': list(props), 'rules': list(rules), 'edits': list(edits)})


def T(mid: str, props, *edits) -> None:
    _M.append({'id': mid, 'kind': 'twin', 'props': list(props), 'rules': [], 'edits': list(edits)})


def all_mutants() -> List[dict]:
    import copy
    return copy.deepcopy(_M)


# ---------------------------------------------------------------------------
# threadsafe_async_cache
# ---------------------------------------------------------------------------
GUARDED_DEL = """                        if events.get(key, (None, None))[1] is event:
                            del events[key]
"""

B('cache-unguarded-del', ['C01', 'C06'], ['C01-R7', 'C06-R3'],
  (A, GUARDED_DEL, "                        del events[key]\n"))
B('cache-drop-locked-reprobe', ['C01'], ['C01-R2'],
  (A, """                try:  # verify nothing cached while waiting for lock
                    return _cache[key]
                except KeyError:
                    pass
""", ""))
B('cache-unmark-outside-lock', ['C01'], ['C01-R1'],
  (A, """                    with event_making_lock:
                        # Wake up any waiting tasks
                        event.set()
""", """                    if True:
                        # Wake up any waiting tasks
                        event.set()
"""))
B('cache-publish-after-unmark', ['C01'], ['C01-R6'],
  (A, """                else:
                    _cache[key] = result  # Cache for other tasks
                finally:""", """                finally:"""),
  (A, """                return result

            # Need to wait""", """                _cache[key] = result
                return result

            # Need to wait"""))
B('cache-takeover-running', ['C01'], ['C01-R4'],
  (A, "or not caching_loop.is_running()):", "or caching_loop.is_running()):"))
B('cache-waiter-calls-func', ['C01'], ['C01-R5'],
  (A, """            except aio.TimeoutError:  # Possible original task lost?
                pass  # Need to loop around and check""",
   """            except aio.TimeoutError:  # Possible original task lost?
                return await _func(*args, **kwargs)"""))
B('cache-return-none', ['C01'], ['C01-R8'],
  (A, "                return result\n\n            # Need to wait", "                return None\n\n            # Need to wait"))
B('cache-cleanup-only-on-success', ['C05'], ['C05-R1'],
  (A, """                else:
                    _cache[key] = result  # Cache for other tasks
                finally:
                    with event_making_lock:""", """                else:
                    _cache[key] = result  # Cache for other tasks
                    with event_making_lock:"""))
B('cache-drop-event-set', ['C05'], ['C05-R1'],
  (A, "                        event.set()\n", "                        pass\n"))
B('cache-wait-direct-across-loops', ['C05'], ['C05-R3'],
  (A, "            if running_loop is not caching_loop:\n", "            if running_loop is caching_loop:\n"))
B('cache-bridge-failure-raises', ['C05'], ['C05-R4'],
  (A, "                    continue  # loop around and try again", "                    raise"))
B('cache-unbounded-wait', ['C05'], ['C05-R5'],
  (A, "aio.wait_for(wait_event, 60)", "aio.wait_for(wait_event, None)"))
B('cache-wait-600', ['C05'], ['C05-R5'],
  (A, "aio.wait_for(wait_event, 60)", "aio.wait_for(wait_event, 600)"))
B('cache-guard-without-closed', ['C05'], ['C05-R7'],
  (A, """                    if (caching_loop.is_closed()
                            or not caching_loop.is_running()):""", """                    if (not caching_loop.is_closed()
                            and not caching_loop.is_running()):"""))
B('cache-guard-and', ['C05'], ['C05-R7'],
  (A, """                    if (caching_loop.is_closed()
                            or not caching_loop.is_running()):""", """                    if (caching_loop.is_closed()
                            and not caching_loop.is_running()):"""))
B('cache-timeout-returns', ['C05', 'C01'], ['C05-R5', 'C05-R6', 'C01-R8'],
  (A, """            except aio.TimeoutError:  # Possible original task lost?
                pass  # Need to loop around and check""", """            except aio.TimeoutError:  # Possible original task lost?
                return None"""))
B('cache-caches-exception', ['C06'], ['C06-R1'],
  (A, """                except Exception:
                    raise  # Bubble any errors without caching""", """                except Exception as exc:
                    _cache[key] = exc
                    raise  # Bubble any errors without caching"""))
B('cache-swallows-exception', ['C06'], ['C06-R2'],
  (A, """                except Exception:
                    raise  # Bubble any errors without caching""", """                except Exception:
                    continue"""))
B('cache-no-shield', ['C06'], ['C06-R5'],
  (A, "                await aio.shield(waiter)", "                await waiter"))
B('cache-clears-event', ['C06'], ['C06-R5', 'C06-R2'],
  (A, """                if not waiter.done():
                    waiter.cancel()""", """                if not waiter.done():
                    event.clear()
                    waiter.cancel()"""))
B('cache-key-args-only', ['C14'], ['C14-R1'],
  (A, "key = args, frozenset(kwargs.items())", "key = (args,)"))
B('cache-key-kw-ordered', ['C14'], ['C14-R1'],
  (A, "key = args, frozenset(kwargs.items())", "key = args, tuple(kwargs.items())"))
B('cache-key-kw-names-only', ['C14'], ['C14-R1'],
  (A, "key = args, frozenset(kwargs.items())", "key = args, frozenset(kwargs)"))
B('cache-key-hash', ['C14'], ['C14-R1'],
  (A, "key = args, frozenset(kwargs.items())", "key = hash((args, frozenset(kwargs.items())))"))
B('cache-key-first-arg', ['C14'], ['C14-R1'],
  (A, "key = args, frozenset(kwargs.items())", "key = args[:1], frozenset(kwargs.items())"))
B('cache-truthiness-select', ['C14'], ['C14-R4'],
  (A, "_cache: _CacheMap = cache if cache is not None else {}", "_cache: _CacheMap = cache or {}"))
B('cache-ignores-mapping', ['C14'], ['C14-R4'],
  (A, "_cache: _CacheMap = cache if cache is not None else {}", "_cache: _CacheMap = {}\n    cache = cache"))
B('cache-call-drops-kwargs', ['C14'], ['C14-R3'],
  (A, "result = await _func(*args, **kwargs)", "result = await _func(*args)"))
B('cache-second-store', ['C14'], ['C14-R4'],
  (A, "                    _cache[key] = result  # Cache for other tasks",
   "                    _cache[key] = result  # Cache for other tasks\n                    _wrapper.__dict__[key] = result"))

T('cache-rename-roles', ['C01', 'C05', 'C06', 'C14'],
  (A, "events", "inflight", 'all'), (A, "event_making_lock", "lk", 'all'), (A, "_cache", "_store", 'all'))
T('cache-acquire-release-form', ['C01', 'C05', 'C06'],
  (A, """                    with event_making_lock:
                        # Wake up any waiting tasks
                        event.set()
                        # Allow garbage collection and/or another loop
                        # to take over caching if this failed. Another
                        # loop may have taken over in the meantime, only
                        # remove the marker if it is still this task's.
                        if events.get(key, (None, None))[1] is event:
                            del events[key]
""", """                    event_making_lock.acquire()
                    try:
                        event.set()
                        if events.get(key, (None, None))[1] is event:
                            del events[key]
                    finally:
                        event_making_lock.release()
"""))
T('cache-pop-for-del', ['C01', 'C05', 'C06', 'C14'],
  (A, GUARDED_DEL, """                        if events.get(key, (None, None))[1] is event:
                            events.pop(key)
"""))
T('cache-ownership-by-tuple-eq', ['C01', 'C05', 'C06'],
  (A, GUARDED_DEL, """                        if events.get(key) == (caching_loop, event):
                            del events[key]
"""))
T('cache-ownership-negated', ['C01', 'C05', 'C06'],
  (A, GUARDED_DEL, """                        if events.get(key, (None, None))[1] is not event:
                            pass
                        else:
                            del events[key]
"""))
T('cache-key-sorted-tuple', ['C14'],
  (A, "key = args, frozenset(kwargs.items())", "key = (args, tuple(sorted(kwargs.items())))"))
T('cache-select-flipped', ['C14'],
  (A, "_cache: _CacheMap = cache if cache is not None else {}", "_cache: _CacheMap = {} if cache is None else cache"))
T('cache-set-after-del', ['C01', 'C05', 'C06'],
  (A, """                        event.set()
                        # Allow garbage collection and/or another loop
                        # to take over caching if this failed. Another
                        # loop may have taken over in the meantime, only
                        # remove the marker if it is still this task's.
                        if events.get(key, (None, None))[1] is event:
                            del events[key]
""", """                        if events.get(key, (None, None))[1] is event:
                            del events[key]
                        event.set()
"""))
T('cache-timeout-30', ['C05'],
  (A, "aio.wait_for(wait_event, 60)", "aio.wait_for(wait_event, 30.0)"))
T('cache-guard-demorgan', ['C01', 'C05'],
  (A, """                    if (caching_loop.is_closed()
                            or not caching_loop.is_running()):""",
   """                    if not (caching_loop.is_running()
                            and not caching_loop.is_closed()):"""))


# ---------------------------------------------------------------------------
# FileLock
# ---------------------------------------------------------------------------
ENTER_FIXED = """        if not self.acquire():
            raise TimeoutError("Failed to acquire file lock:", self._lock_file)
        return self
"""
B('fl-enter-ignores-result', ['C02'], ['C02-R7'],
  (F, ENTER_FIXED, "        self.acquire()\n        return self\n"))
B('fl-force-release-once', ['C12'], ['C12-R1'],
  (F, """            else:
                _logger.info('Lock %s released on %s', lid, fn)
            # When forced, every nested level is given up at once
            levels += self._lock_counter
            self._lock_counter = 0
""", """            else:
                self._lock_counter = 0
                _logger.info('Lock %s released on %s', lid, fn)
"""))
B('fl-lock-shared', ['C02', 'C13'], ['C02-R5', 'C13-R3'],
  (F, "fcntl.flock(fd,  fcntl.LOCK_EX | (0 if block else fcntl.LOCK_NB))", "fcntl.flock(fd,  fcntl.LOCK_SH | (0 if block else fcntl.LOCK_NB))"))
B('fl-lockf', ['C02', 'C13'], ['C02-R5', 'C13-R3'],
  (F, "fcntl.flock(fd,  fcntl.LOCK_EX | (0 if block else fcntl.LOCK_NB))", "fcntl.lockf(fd,  fcntl.LOCK_EX | (0 if block else fcntl.LOCK_NB))"))
B('fl-nb-inverted', ['C02'], ['C02-R5'],
  (F, "(0 if block else fcntl.LOCK_NB)", "(fcntl.LOCK_NB if block else 0)"))
B('fl-win-modes-swapped', ['C02'], ['C02-R5'],
  (F, "msvcrt.LK_LOCK if block else msvcrt.LK_NBLCK", "msvcrt.LK_NBLCK if block else msvcrt.LK_LOCK"))
B('fl-cached-descriptor', ['C02'], ['C02-R4'],
  (F, "            fd = os.open(self._lock_file, self._FD_OPEN_MODE)", "            fd = getattr(self, '_fd_cache', None) or os.open(self._lock_file, self._FD_OPEN_MODE)\n            self._fd_cache = fd"))
B('fl-true-on-timeout', ['C02', 'C12'], ['C02-R1', 'C02-R2', 'C12-R1'],
  (F, """                    _logger.debug('Timeout on acquiring lock %s on %s', lid, fn)
                    _cleanup_thread_lock()
                    return False""", """                    _logger.debug('Timeout on acquiring lock %s on %s', lid, fn)
                    _cleanup_thread_lock()
                    return True"""))
B('fl-no-cleanup-nonblocking', ['C12'], ['C12-R1'],
  (F, """                    _logger.debug('Failed to acquire lock %s on %s', lid, fn)
                    _cleanup_thread_lock()
                    return False""", """                    _logger.debug('Failed to acquire lock %s on %s', lid, fn)
                    return False"""))
B('fl-cleanup-keeps-counter', ['C12'], ['C12-R1'],
  (F, """            self._decrement_lock_counter()
            self._thread_lock.release()""", """            self._thread_lock.release()"""))
B('fl-fd-set-before-lock', ['C02'], ['C02-R3'],
  (F, """        try:
            self._lock(fd, block)
        except (IOError, OSError):
            os.close(fd)
        else:
            self._lock_file_fd = fd""", """        self._lock_file_fd = fd
        try:
            self._lock(fd, block)
        except (IOError, OSError):
            os.close(fd)"""))
B('fl-tl-released-before-os', ['C02'], ['C02-R6'],
  (F, """            try:
                self._release()
            except:  # noqa""", """            try:
                self._thread_lock.release()
                self._release()
            except:  # noqa"""))
B('fl-remove-on-release', ['C13'], ['C13-R1', 'C13-R4'],
  (F, """        finally:
            os.close(fd)

    @abc.abstractmethod""", """        finally:
            os.close(fd)
            os.remove(self._lock_file)

    @abc.abstractmethod"""))
B('fl-o-excl', ['C13'], ['C13-R2'],
  (F, "os.O_RDWR | os.O_CREAT | os.O_TRUNC", "os.O_RDWR | os.O_CREAT | os.O_EXCL"))
B('fl-pid-file', ['C13'], ['C13-R1'],
  (F, "            self._lock_file_fd = fd\n", "            self._lock_file_fd = fd\n            os.write(fd, str(os.getpid()).encode())\n"))
B('fl-exists-check', ['C13'], ['C13-R1'],
  (F, "        try:\n            fd = os.open(self._lock_file, self._FD_OPEN_MODE)", "        if os.path.exists(str(self._lock_file) + '.held'):\n            return\n        try:\n            fd = os.open(self._lock_file, self._FD_OPEN_MODE)"))
B('fl-leak-fd-on-lock-failure', ['C12'], ['C12-R5'],
  (F, "        except (IOError, OSError):\n            os.close(fd)", "        except (IOError, OSError):\n            pass"))
B('fl-close-not-in-finally', ['C12'], ['C12-R5'],
  (F, """        try:
            self._unlock(fd)
        finally:
            os.close(fd)""", """        self._unlock(fd)
        os.close(fd)"""))
B('fl-inner-release-drops-os-lock', ['C12'], ['C12-R2', 'C12-R1'],
  (F, "        if self._lock_counter == 0 or force:", "        if self._lock_counter >= 0 or force:"))
B('fl-nonblocking-sleeps', ['C12'], ['C12-R7'],
  (F, """                elif not blocking:
                    _logger.debug('Failed to acquire lock %s on %s', lid, fn)
                    _cleanup_thread_lock()
                    return False
""", ""))
B('fl-clock-before-stage1', ['C12'], ['C12-R8'],
  (F, "        lid = id(self)\n        fn = self._lock_file\n\n        if not self._thread_lock", "        lid = id(self)\n        fn = self._lock_file\n        start_time = time.time()\n\n        if not self._thread_lock"),
  (F, "        start_time = time.time()\n\n        def _cleanup", "        def _cleanup"))
B('fl-rlock-always', ['C12'], ['C12-R3'],
  (F, "            self._thread_lock = threading.Lock()", "            self._thread_lock = threading.RLock()"))
B('fl-normalise-always-blocking', ['C12'], ['C12-R6'],
  (F, "            blocking = blocking if timeout < 0 else True", "            blocking = True"))
B('fl-normalise-nonblocking-default-timeout', ['C12'], ['C12-R6'],
  (F, "            timeout = self.timeout if blocking else -1", "            timeout = self.timeout"))
B('fl-unheld-release-resets', ['C12'], ['C12-R4'],
  (F, "        if not self.is_locked:\n            return\n\n        self._decrement", "        if not self.is_locked:\n            self._lock_counter = 0\n            return\n\n        self._decrement"))
B('fl-sleep-constant', ['C12'], ['C12-R8'],
  (F, "time.sleep(poll_interval)", "time.sleep(1)"))
B('fl-os-release-failure-keeps-tl', ['C12'], ['C12-R9', 'C12-R1'],
  (F, """            except:  # noqa
                _logger.exception("Failed to release lock %s on %s", lid, fn)
            else:""", """            except:  # noqa
                _logger.exception("Failed to release lock %s on %s", lid, fn)
                return
            else:"""))
B('fl-acquire-ctx-ignores-result', ['C02'], ['C02-R7'],
  (F, """        if not self.acquire(blocking, timeout, poll_interval):
            raise TimeoutError("Failed to acquire file lock:", self._lock_file)
        try:""", """        self.acquire(blocking, timeout, poll_interval)
        try:"""))

T('fl-rename-attrs', ['C02', 'C12', 'C13'],
  (F, "_thread_lock", "_tl", 'all'), (F, "_lock_counter", "_depth", 'all'), (F, "_lock_file_fd", "_fd", 'all'))
T('fl-enter-via-variable', ['C02'],
  (F, ENTER_FIXED, """        ok = self.acquire()
        if not ok:
            raise TimeoutError("Failed to acquire file lock:", self._lock_file)
        return self
"""))
T('fl-flags-reordered', ['C02', 'C13'],
  (F, "fcntl.LOCK_EX | (0 if block else fcntl.LOCK_NB)", "(0 if block else fcntl.LOCK_NB) | fcntl.LOCK_EX"))
T('fl-flags-negated-test', ['C02', 'C13'],
  (F, "(0 if block else fcntl.LOCK_NB)", "(fcntl.LOCK_NB if not block else 0)"))
T('fl-release-extra-levels-form', ['C12', 'C02'],
  (F, """        levels = 1  # Levels of the thread lock to release
""", """        extra = 0
"""),
  (F, """            levels += self._lock_counter
            self._lock_counter = 0
""", """            extra = self._lock_counter
            self._lock_counter = 0
"""),
  (F, """            for _ in range(levels):
                self._thread_lock.release()
""", """            self._thread_lock.release()
            for _ in range(extra):
                self._thread_lock.release()
"""))
T('fl-lock-kind-ifexp', ['C12'],
  (F, """        if self._reentrant:
            self._thread_lock = threading.RLock()
        else:
            self._thread_lock = threading.Lock()""", """        self._thread_lock = threading.RLock() if self._reentrant else threading.Lock()"""))
T('fl-open-mode-reordered', ['C13'],
  (F, "os.O_RDWR | os.O_CREAT | os.O_TRUNC", "os.O_CREAT | os.O_TRUNC | os.O_RDWR"))
T('fl-inline-cleanup', ['C12', 'C02'],
  (F, """                    _logger.debug('Failed to acquire lock %s on %s', lid, fn)
                    _cleanup_thread_lock()
                    return False""", """                    _logger.debug('Failed to acquire lock %s on %s', lid, fn)
                    self._decrement_lock_counter()
                    self._thread_lock.release()
                    return False"""))


# ---------------------------------------------------------------------------
# AsyncBackgroundBatcher
# ---------------------------------------------------------------------------
B('bat-positional-matching', ['C04'], ['C04-B1'],
  (A, "                    fut = futs.pop(key)\n", "                    fut = futs.pop(next(iter(futs)))\n"))
B('bat-no-isinstance', ['C04'], ['C04-B2'],
  (A, """                    if isinstance(result, Exception):
                        fut.set_exception(result)
                    else:
                        fut.set_result(result)""", """                    fut.set_result(result)"""))
B('bat-isinstance-inverted', ['C04'], ['C04-B2'],
  (A, "                    if isinstance(result, Exception):", "                    if not isinstance(result, Exception):"))
B('bat-no-missing-sweep', ['C04'], ['C04-B4', 'C04-B5'],
  (A, """            for key, fut in futs.items():
                fut.set_exception(ValueError(f"Missing result for {key!r}"))""", """            pass"""))
B('bat-no-fanout', ['C04'], ['C04-B3', 'C04-B5'],
  (A, """            for fut in futs.values():
                fut.set_exception(e)
            return""", """            return"""))
B('bat-fanout-other-exception', ['C04'], ['C04-B3'],
  (A, """            for fut in futs.values():
                fut.set_exception(e)""", """            for fut in futs.values():
                fut.set_exception(RuntimeError('batch failed'))"""))
B('bat-answered-stays', ['C04'], ['C04-B6'],
  (A, "                    fut = futs.pop(key)\n", "                    fut = futs[key]\n"))
B('bat-dispatcher-awaits-batch', ['C04', 'C09'], ['C04-B8', 'C09-R5'],
  (A, """            self._daemon_task(  # noqa
                self._process_batch(tasks),
                name="async-bg-batcher-process-batch",
            )""", """            await self._process_batch(tasks)"""))
B('bat-except-too-narrow', ['C04'], ['C04-B3', 'C04-B5'],
  (A, "        except Exception as e:\n            logger.debug(\"Exception while processing batch\"", "        except ValueError as e:\n            logger.debug(\"Exception while processing batch\""))
B('bat-caller-cancels-future', ['C09'], ['C09-R1'],
  (A, """        try:
            return await fut
        finally:
            if self.retention_timeout > 0:""", """        try:
            return await fut
        finally:
            fut.cancel()
            if self.retention_timeout > 0:"""))
B('bat-guard-le', ['C10'], ['C10-R1'],
  (A, "        while len(tasks) < self.max_batch_size:", "        while len(tasks) <= self.max_batch_size:"))
B('bat-no-semaphore', ['C10'], ['C10-R3'],
  (A, "            async with self._semaphore:  # Limit concurrent executions", "            if True:"))
B('bat-lifo-queue', ['C10'], ['C10-R4'],
  (A, "        self._queue = aio.Queue()\n        self.max_batch_size", "        self._queue = aio.LifoQueue()\n        self.max_batch_size"))
B('bat-insert-front', ['C10'], ['C10-R4'],
  (A, "tasks.append(await aio.wait_for(q.get(), self.batch_timeout))", "tasks.insert(0, await aio.wait_for(q.get(), self.batch_timeout))"))
B('bat-timeout-constant', ['C10'], ['C10-R5'],
  (A, "aio.wait_for(q.get(), self.batch_timeout)", "aio.wait_for(q.get(), 0.05)"))
B('bat-timeout-continues', ['C10'], ['C10-R5'],
  (A, "            except AioTimeoutError:  # No more tasks coming\n                break", "            except AioTimeoutError:  # No more tasks coming\n                continue"))
B('bat-bulk-unbounded', ['C10'], ['C10-R1'],
  (A, "                    self.max_batch_size - len(tasks),\n", "                    self.max_batch_size,\n"))
B('bat-growth-outside-guard', ['C10'], ['C10-R1'],
  (A, "        return tasks\n\n    async def _process_batch", "        try:\n            tasks.append(q.get_nowait())\n        except AioQueueEmpty:\n            pass\n        return tasks\n\n    async def _process_batch"))
B('bat-sem-constant', ['C10'], ['C10-R3'],
  (A, "aio.Semaphore(value=max_concurrent_batches)", "aio.Semaphore(value=5)"))
B('bat-empty-batch-on-timeout', ['C10'], ['C10-R2', 'C10-R5'],
  (A, "            except AioTimeoutError:  # No more tasks coming\n                break", "            except AioTimeoutError:  # No more tasks coming\n                return []"))
B('bat-args-reversed', ['C10'], ['C10-R4'],
  (A, "args = [t[:2] for t in tasks]", "args = [t[:2] for t in reversed(tasks)]"))
B('bat-second-assembler', ['C10'], ['C10-R4'],
  (A, """        self._loop_task = self._daemon_task(
            self._processing_loop(),
            name="async-bg-batcher-processing-loop",
        )""", """        self._loop_task = self._daemon_task(
            self._processing_loop(),
            name="async-bg-batcher-processing-loop",
        )
        self._loop_task2 = self._daemon_task(
            self._processing_loop(),
            name="async-bg-batcher-processing-loop-2",
        )"""))
B('bat-suspend-between-miss-and-store', ['C11'], ['C11-R1'],
  (A, "        fut = self._retention_cache[key] = self._loop.create_future()", "        await aio.sleep(0)\n        fut = self._retention_cache[key] = self._loop.create_future()"))
B('bat-evict-on-hit', ['C11'], ['C11-R4'],
  (A, """        else:
            return await fut

        fut = self._retention_cache[key]""", """        else:
            try:
                return await fut
            finally:
                self._retention_cache.pop(key, None)

        fut = self._retention_cache[key]"""))
B('bat-retention-delay-constant', ['C11'], ['C11-R3'],
  (A, "                    self.retention_timeout,\n                    self._retention_cache.pop,", "                    1.0,\n                    self._retention_cache.pop,"))
B('bat-no-evict-on-exception', ['C11'], ['C11-R3'],
  (A, """        try:
            return await fut
        finally:
            if self.retention_timeout > 0:
                self._loop.call_later(
                    self.retention_timeout,
                    self._retention_cache.pop,
                    key,
                )
            else:
                del self._retention_cache[key]""", """        result = await fut
        if self.retention_timeout > 0:
            self._loop.call_later(
                self.retention_timeout,
                self._retention_cache.pop,
                key,
            )
        else:
            del self._retention_cache[key]
        return result"""))
B('bat-key-always-str', ['C11'], ['C11-R5'],
  (A, "        if key is None:\n            key = str(arg)\n\n        fut:", "        key = str(arg)\n\n        fut:"))
B('bat-enqueue-on-hit', ['C11'], ['C11-R2'],
  (A, """        else:
            return await fut

        fut = self._retention_cache[key]""", """        else:
            await self._queue.put((key, arg, fut))
            return await fut

        fut = self._retention_cache[key]"""))
B('bat-bounded-queue', ['C11'], ['C11-R3'],
  (A, "        self._queue = aio.Queue()\n        self.max_batch_size", "        self._queue = aio.Queue(maxsize=128)\n        self.max_batch_size"))
B('bat-never-evict-when-zero', ['C11'], ['C11-R3'],
  (A, "            else:\n                del self._retention_cache[key]", "            else:\n                pass"))
B('bat-retention-ignored', ['C11', 'C15'], ['C11-R3', 'C15-R2'],
  (A, "        self.retention_timeout = retention_timeout\n        self._retention_cache = {}", "        self.retention_timeout = 0.\n        self._retention_cache = {}"))
B('bat-partial-drops-batch-timeout', ['C15'], ['C15-R1'],
  (A, "            batch_timeout=batch_timeout,\n            retention_timeout=retention_timeout,\n        )\n\n    batchers", "            retention_timeout=retention_timeout,\n        )\n\n    batchers"))
B('bat-partial-drops-retention', ['C15'], ['C15-R1'],
  (A, "            batch_timeout=batch_timeout,\n            retention_timeout=retention_timeout,\n        )\n\n    batchers", "            batch_timeout=batch_timeout,\n        )\n\n    batchers"))
B('cache-partial-drops-cache', ['C15'], ['C15-R1'],
  (A, "            threadsafe_async_cache,\n            cache=cache,\n        )", "            threadsafe_async_cache,\n        )"))
B('buf-partial-constant-timeout', ['C15'], ['C15-R1'],
  (A, "return partial(buffer_until_timeout, timeout=timeout)", "return partial(buffer_until_timeout, timeout=1)"))
B('bat-registry-strong', ['C15'], ['C15-R3'],
  (A, "        = WeakKeyDict()\n", "        = dict()\n"))
B('bat-wrapper-drops-option', ['C15'], ['C15-R2'],
  (A, "                batch_timeout=batch_timeout,\n                retention_timeout=retention_timeout,\n            )\n        return await batcher", "                batch_timeout=batch_timeout,\n            )\n        return await batcher"))
B('buf-ctor-drops-timeout', ['C15'], ['C15-R2'],
  (A, "return wraps(func)(BufferAsyncCalls(func, timeout=timeout))", "return wraps(func)(BufferAsyncCalls(func))"))
B('bat-registry-key-thread', ['C15'], ['C15-R3'],
  (A, "        loop = aio.get_running_loop()\n        try:\n            batcher = batchers[loop]", "        loop = aio.get_event_loop_policy()\n        try:\n            batcher = batchers[loop]"))

T('bat-rename-roles', ['C04', 'C09', 'C10', 'C11', 'C15'],
  (A, "_retention_cache", "_ret", 'all'), (A, "_semaphore", "_sem", 'all'), (A, "futs", "pending", 'all'))
T('bat-guard-flipped', ['C10'],
  (A, "        while len(tasks) < self.max_batch_size:", "        while self.max_batch_size > len(tasks):"))
T('bat-evict-pop-for-del', ['C11', 'C09'],
  (A, "            else:\n                del self._retention_cache[key]", "            else:\n                self._retention_cache.pop(key)"))
T('bat-retention-test-flipped', ['C11'],
  (A, """            if self.retention_timeout > 0:
                self._loop.call_later(
                    self.retention_timeout,
                    self._retention_cache.pop,
                    key,
                )
            else:
                del self._retention_cache[key]""", """            if self.retention_timeout <= 0:
                del self._retention_cache[key]
            else:
                self._loop.call_later(
                    self.retention_timeout,
                    self._retention_cache.pop,
                    key,
                )"""))
T('bat-fanout-items', ['C04', 'C09'],
  (A, """            for fut in futs.values():
                fut.set_exception(e)""", """            for _k, fut in futs.items():
                fut.set_exception(e)"""))
B('bat-shielded-and-guarded', ['C04', 'C09'], ['C09-R4', 'C04-B9'],   # (was a twin until seeded C04-w13-3 showed the half-repair breaks C04)
 
  (A, """        else:
            return await fut

        fut = self._retention_cache[key]""", """        else:
            return await aio.shield(fut)

        fut = self._retention_cache[key]"""),
  (A, """        try:
            return await fut
        finally:
            if self.retention_timeout > 0:""", """        try:
            return await aio.shield(fut)
        finally:
            if self.retention_timeout > 0:"""))
T('bat-create-task-spawn', ['C04', 'C09', 'C10'],
  (A, """            self._daemon_task(  # noqa
                self._process_batch(tasks),
                name="async-bg-batcher-process-batch",
            )""", """            self._loop.create_task(self._process_batch(tasks))"""))


# ---------------------------------------------------------------------------
# BufferAsyncCalls
# ---------------------------------------------------------------------------
B('buf-set-in-finally', ['C03'], ['C03-S1'],
  (A, "            logging.exception(\"Failed to run %s, retrying\", self.func)\n        else:\n            self.event.set()",
   "            logging.exception(\"Failed to run %s, retrying\", self.func)\n        finally:\n            self.event.set()"))
B('buf-inputs-cleared-after-run', ['C03'], ['C03-S2'],
  (A, "                await self._run_func(inputs)\n            else:", "                await self._run_func(inputs)\n                inputs.clear()\n            else:"))
B('buf-runner-reraises', ['C03'], ['C03-S3'],
  (A, "            logging.exception(\"Failed to run %s, retrying\", self.func)\n        else:", "            logging.exception(\"Failed to run %s, retrying\", self.func)\n            raise\n        else:"))
B('buf-no-retry-after-run', ['C03'], ['C03-S3'],
  (A, "                await self._run_func(inputs)\n            else:", "                await self._run_func(inputs)\n                return\n            else:"))
B('buf-drained-not-loaded', ['C03'], ['C03-S4'],
  (A, "            input_gens.extend(map(_load_inputs, self._empty_queue()))", "            for _ in self._empty_queue():\n                pass"))
B('buf-clear-before-gather', ['C03'], ['C03-S4'],
  (A, """            if input_gens:  # Load as many as possible concurrently
                await aio.gather(*input_gens)
                input_gens.clear()  # Clear processed input generators""", """            input_gens.clear()  # Clear processed input generators
            if input_gens:  # Load as many as possible concurrently
                await aio.gather(*input_gens)"""))
B('buf-loader-no-handler', ['C03'], ['C03-S5'],
  (A, """            try:
                async for i in iterable:
                    inputs.add(i)
            except BaseException:  # noqa
                logger.exception("Failed to get args from: %r", iterable)""", """            async for i in iterable:
                inputs.add(i)"""))
B('buf-add-after-loop', ['C03'], ['C03-S5'],
  (A, """                async for i in iterable:
                    inputs.add(i)
            except BaseException:  # noqa""", """                loaded = []
                async for i in iterable:
                    loaded.append(i)
                for j in loaded:
                    inputs.add(j)
            except BaseException:  # noqa"""))
B('buf-adds-str', ['C03'], ['C03-S6'],
  (A, "                    inputs.add(i)\n", "                    inputs.add(str(i))\n"))
B('buf-func-gets-copy-minus', ['C03'], ['C03-S6'],
  (A, "                await self.func(inputs)", "                await self.func(set(list(inputs)[:1]))"))
B('buf-map-never-puts', ['C03'], ['C03-S7'],
  (A, "        self._put(to_async_iter(_args))", "        to_async_iter(_args)"))
B('buf-await-wrong-adaptor', ['C03'], ['C03-S7'],
  (A, "        self._put(_awaitable_to_aiter(_arg))", "        self._put(_obj_to_aiter(_arg))"))
B('buf-put-nowait-direct', ['C03'], ['C03-S8'],
  (A, "        self.loop.call_soon_threadsafe(self.q.put_nowait, iterable)", "        self.q.put_nowait(iterable)"))
B('buf-call-soon-not-threadsafe', ['C03', 'C07'], ['C03-S8', 'C07-W8'],
  (A, "        self.loop.call_soon_threadsafe(self.q.put_nowait, iterable)", "        self.loop.call_soon(self.q.put_nowait, iterable)"))
B('buf-second-foreign-flag-mutation', ['C03'], ['C03-S9'],
  (A, "        self._put(_obj_to_aiter(_arg))", "        self.event.clear()\n        self._put(_obj_to_aiter(_arg))"))
B('buf-suspend-after-set', ['C03'], ['C03-S10'],
  (A, "        else:\n            self.event.set()\n\n    def _schedule_with_timeout", "        else:\n            self.event.set()\n            await aio.sleep(0)\n\n    def _schedule_with_timeout"))
B('buf-adaptor-conditional-yield', ['C03'], ['C03-S7'],
  (A, "    yield o\n\n\nasync def _awaitable_to_aiter", "    if o:\n        yield o\n\n\nasync def _awaitable_to_aiter"))
B('buf-wait-no-join', ['C07'], ['C07-W1'],
  (A, "        await self.loop.create_task(self.q.join())\n", "        await aio.sleep(0)\n"))
B('buf-wait-flag-before-join', ['C07'], ['C07-W1'],
  (A, "        await self.loop.create_task(self.q.join())\n", "        await self.event.wait()\n        await self.loop.create_task(self.q.join())\n"))
B('buf-no-clear-after-first-get', ['C07'], ['C07-W2'],
  (A, "            self.event.clear()  # Ensure cleared in case previous cancel\n", ""))
B('buf-suspend-between-get-and-done', ['C07'], ['C07-W2'],
  (A, "            self.event.clear()  # Ensure cleared in case previous cancel\n            self.q.task_done()", "            self.q.task_done()\n            await aio.sleep(0)\n            self.event.clear()  # Ensure cleared in case previous cancel"))
B('buf-first-get-no-task-done', ['C07'], ['C07-W3'],
  (A, "            self.event.clear()  # Ensure cleared in case previous cancel\n            self.q.task_done()", "            self.event.clear()  # Ensure cleared in case previous cancel"))
B('buf-drain-no-task-done', ['C07'], ['C07-W3'],
  (A, "            except aio.QueueEmpty:\n                break\n            else:\n                self.q.task_done()", "            except aio.QueueEmpty:\n                break"))
B('buf-extra-task-done', ['C07'], ['C07-W3'],
  (A, "                await self._run_func(inputs)\n            else:\n                self.q.task_done()", "                await self._run_func(inputs)\n                self.q.task_done()\n            else:\n                self.q.task_done()"))
B('buf-wait-cancels-daemon', ['C07'], ['C07-W4'],
  (A, "            self._getting.cancel()\n        # Wait for the function", "            self._waiting.cancel()\n        # Wait for the function"))
B('buf-wait-cancels-always', ['C07'], ['C07-W4'],
  (A, "        if cancel and self._getting and not self._getting.done():", "        if self._getting and not self._getting.done():"))
B('buf-no-flush-on-cancel', ['C07'], ['C07-W5'],
  (A, "            except (aio.TimeoutError, aio.CancelledError):\n                await self._run_func(inputs)", "            except aio.TimeoutError:\n                await self._run_func(inputs)"))
B('buf-wait-clears-flag', ['C07'], ['C07-W6'],
  (A, "        # Wait for the function to finish processing\n        await self.event.wait()", "        # Wait for the function to finish processing\n        await self.event.wait()\n        self.event.clear()"))
B('buf-anywhere-drops-cancel', ['C07'], ['C07-W7'],
  (A, "        return await ensure_aw(self.wait(cancel=cancel), self.loop)", "        return await ensure_aw(self.wait(), self.loop)"))
B('buf-anywhere-wrong-loop', ['C07'], ['C07-W7'],
  (A, "        return await ensure_aw(self.wait(cancel=cancel), self.loop)", "        return await ensure_aw(self.wait(cancel=cancel), aio.get_running_loop())"))
B('buf-fourth-cancel-swallower', ['C07'], ['C07-W9'],
  (A, "        while True:\n            await self._process_queue()", "        while True:\n            try:\n                await self._process_queue()\n            except BaseException:\n                pass"))
B('buf-daemon-overrides-cancel', ['C07'], ['C07-W10'],
  (A, "    __del__ = aio.Task.__base__.__del__  # type: ignore", "    __del__ = aio.Task.__base__.__del__  # type: ignore\n\n    def cancel(self, msg=None):\n        return False"))
B('buf-func-as-task', ['C08'], ['C08-D1'],
  (A, "                await self.func(inputs)", "                await self.loop.create_task(self.func(inputs))"))
B('buf-func-fire-and-forget', ['C08', 'C03'], ['C08-D1', 'C03-S1'],
  (A, "                await self.func(inputs)", "                aio.ensure_future(self.func(inputs))"))
B('buf-no-empty-guard', ['C08'], ['C08-D2'],
  (A, "            if inputs:  # Could be empty if all empty iterators\n                await self.func(inputs)", "            await self.func(inputs)"))
B('buf-run-after-every-arrival', ['C08'], ['C08-D3', 'C08-D4'],
  (A, "                await self._run_func(inputs)\n            else:\n                self.q.task_done()", "                await self._run_func(inputs)\n            else:\n                self.q.task_done()\n                await self._run_func(inputs)"))
B('buf-timer-constant', ['C08', 'C15'], ['C08-D3', 'C15-R2'],
  (A, "        return self.loop.create_task(aio.wait_for(coro, self.timeout))", "        return self.loop.create_task(aio.wait_for(coro, 1))"))
B('buf-arm-before-drain', ['C08'], ['C08-D4'],
  (A, """            input_gens.extend(map(_load_inputs, self._empty_queue()))
            # Schedule the q.get() and save it as an attribute so it
            # can be cancelled as necessary. This needs to be scheduled
            # *before* waiting for the known inputs.
            self._getting = self._schedule_with_timeout(self.q.get())""", """            self._getting = self._schedule_with_timeout(self.q.get())
            input_gens.extend(map(_load_inputs, self._empty_queue()))"""))
B('buf-second-daemon', ['C08'], ['C08-D1'],
  (A, "        #: Current task that is waiting for a new element from the queue", "        self._waiting2 = DaemonTask(self._waiter(), loop=self.loop)\n        #: Current task that is waiting for a new element from the queue"))
B('buf-timer-armed-once', ['C08'], ['C08-D3'],
  (A, """            self._getting = self._schedule_with_timeout(self.q.get())
            if input_gens:""", """            if self._getting is None or self._getting.done():
                self._getting = self._schedule_with_timeout(self.q.get())
            if input_gens:"""))

T('buf-rename-roles', ['C03', 'C07', 'C08'],
  (A, "_getting", "_timer", 'all'), (A, "inputs", "pending", 'all'), (A, "input_gens", "loaders", 'all'))
T('buf-inline-arm', ['C03', 'C07', 'C08', 'C15'],
  (A, "            self._getting = self._schedule_with_timeout(self.q.get())", "            self._getting = self.loop.create_task(aio.wait_for(self.q.get(), self.timeout))"))
B('buf-join-direct', ['C07'], ['C07-W8'],
  (A, "        await self.loop.create_task(self.q.join())\n", "        await self.q.join()\n"))
T('buf-runner-return-form', ['C03', 'C07', 'C08'],
  (A, "            logging.exception(\"Failed to run %s, retrying\", self.func)\n        else:\n            self.event.set()",
   "            logging.exception(\"Failed to run %s, retrying\", self.func)\n            return\n        self.event.set()"))
B('buf-loader-except-exception', ['C03'], ['C03-S5'],
  (A, "            except BaseException:  # noqa\n                logger.exception(\"Failed to get args from: %r\", iterable)", "            except Exception:  # noqa\n                logger.exception(\"Failed to get args from: %r\", iterable)"))
T('buf-done-before-clear', ['C07', 'C03'],
  (A, "            self.event.clear()  # Ensure cleared in case previous cancel\n            self.q.task_done()", "            self.q.task_done()\n            self.event.clear()  # Ensure cleared in case previous cancel"))


# ---------------------------------------------------------------------------
# helpers: C16 - C20
# ---------------------------------------------------------------------------
B('it-async-sentinel-not-in-finally', ['C16'], ['C16-TA1'],
  (A, """        try:
            for x in iterable:
                put(x)
        finally:
            put(_DONE)""", """        for x in iterable:
            put(x)
        put(_DONE)"""))
B('it-sync-sentinel-not-in-finally', ['C16'], ['C16-TA1'],
  (A, """        try:
            async for x in iterable:
                put(x)
        finally:
            put(_DONE)  # type: ignore""", """        async for x in iterable:
            put(x)
        put(_DONE)  # type: ignore"""))
B('it-async-truthiness-test', ['C16'], ['C16-TA2'],
  (A, "        while (i := await q.get()) is not _DONE:", "        while (i := await q.get()) != _DONE:"))
B('it-sync-filtered-yield', ['C16'], ['C16-TA2'],
  (A, "            while (i := q.get()) is not _DONE:\n                yield i", "            while (i := q.get()) is not _DONE:\n                if i is not None:\n                    yield i"))
B('it-async-future-not-awaited', ['C16'], ['C16-TA3'],
  (A, "            yield i  # type: ignore\n        await future  # Bubble any errors", "            yield i  # type: ignore"))
B('it-sync-result-not-taken', ['C16'], ['C16-TA3'],
  (A, """        try:
            while (i := q.get()) is not _DONE:
                yield i
        finally:
            future.result()""", """        while (i := q.get()) is not _DONE:
            yield i"""))
B('it-async-inline-iterators', ['C16'], ['C16-TA4'],
  (A, "    if not isinstance(iterable, Iterator):\n        for x in iterable:", "    if isinstance(iterable, Iterator):\n        for x in iterable:"))
B('it-async-direct-put', ['C16'], ['C16-TA5'],
  (A, """    put = partial(
        loop.call_soon_threadsafe,
        q.put_nowait,  # type: ignore[arg-type]
        # ^ Type stubs don't understand partial will pass args later
    )""", """    put = q.put_nowait"""))
B('it-sync-asyncio-queue', ['C16'], ['C16-TA5'],
  (A, "    q: 'queue.Queue[T]' = queue.Queue()", "    q: 'queue.Queue[T]' = aio.Queue()"))
B('it-async-pool-not-scoped', ['C16'], ['C16-TA6'],
  (A, """    with ThreadPoolExecutor(1) as pool:
        future = loop.run_in_executor(pool, _queue_elements)
        while (i := await q.get()) is not _DONE:
            yield i  # type: ignore
        await future  # Bubble any errors""", """    pool = ThreadPoolExecutor(1)
    future = loop.run_in_executor(pool, _queue_elements)
    while (i := await q.get()) is not _DONE:
        yield i  # type: ignore
    await future  # Bubble any errors"""))
B('it-async-double-put', ['C16'], ['C16-TA7'],
  (A, "            for x in iterable:\n                put(x)\n        finally:\n            put(_DONE)\n\n    q: 'aio.Queue", "            for x in iterable:\n                put(x)\n                put(x)\n        finally:\n            put(_DONE)\n\n    q: 'aio.Queue"))
B('aw-inline-on-foreign-loop', ['C17'], ['C17-R1'],
  (A, "    if main_loop is loop:\n        return await aw", "    if main_loop is not loop:\n        return await aw"))
B('aw-runs-running-loop', ['C17'], ['C17-R1'],
  (A, "    if loop.is_running():\n        return await run_aw_threadsafe(aw, loop)", "    if not loop.is_running():\n        return await run_aw_threadsafe(aw, loop)"))
B('aw-no-closed-check', ['C17'], ['C17-R1'],
  (A, "    if loop.is_closed():\n        raise RuntimeError(\"Target loop is closed!\")\n", ""))
B('aw-run-without-lock', ['C17'], ['C17-R2'],
  (A, """        with _get_loop_lock(loop):
            aio.set_event_loop(loop)
            return loop.run_until_complete(aw)""", """        aio.set_event_loop(loop)
        return loop.run_until_complete(aw)"""))
B('aw-run-forever-wrong-lock', ['C17'], ['C17-R2'],
  (A, """        with _get_loop_lock(loop):
            aio.set_event_loop(loop)
            loop.run_forever()""", """        with _get_loop_lock(aio.get_event_loop()):
            aio.set_event_loop(loop)
            loop.run_forever()"""))
B('aw-lock-store-outside-creation-lock', ['C17'], ['C17-R3'],
  (A, """    with _LOOP_LOCKS_CREATE_LOCK:  # Ensure atomic creation
        try:  # Handle case where another thread acquired lock first
            return _LOOP_LOCKS[key]
        except KeyError:  # FIRST! Create the lock
            lock = _LOOP_LOCKS[key] = Lock()
            # Ensure the lock is cleaned up when the loop is destroyed
            finalize(loop, _LOOP_LOCKS.pop, key, None)
            return lock""", """    lock = _LOOP_LOCKS[key] = Lock()
    # Ensure the lock is cleaned up when the loop is destroyed
    finalize(loop, _LOOP_LOCKS.pop, key, None)
    return lock"""))
B('aw-lock-no-reprobe', ['C17'], ['C17-R3'],
  (A, """        try:  # Handle case where another thread acquired lock first
            return _LOOP_LOCKS[key]
        except KeyError:  # FIRST! Create the lock
            lock = _LOOP_LOCKS[key] = Lock()
            # Ensure the lock is cleaned up when the loop is destroyed
            finalize(loop, _LOOP_LOCKS.pop, key, None)
            return lock""", """        lock = _LOOP_LOCKS[key] = Lock()
        # Ensure the lock is cleaned up when the loop is destroyed
        finalize(loop, _LOOP_LOCKS.pop, key, None)
        return lock"""))
B('aw-threadsafe-on-caller-loop', ['C17'], ['C17-R4'],
  (A, "    return await aio.wrap_future(run_coro_ts(coro, loop))", "    return await aio.wrap_future(run_coro_ts(coro, aio.get_running_loop()))"))
B('aw-swallows-exception', ['C17'], ['C17-R4'],
  (A, "    if main_loop is loop:\n        return await aw", "    if main_loop is loop:\n        try:\n            return await aw\n        except Exception:\n            return None"))
B('aw-loop-in-thread-returns-early', ['C17'], ['C17-R5'],
  (A, "    while not loop.is_running():\n        sleep(0)  # Force switching to other threads\n", ""))
B('aw-stop-direct', ['C17'], ['C17-R6'],
  (A, "        loop.call_soon_threadsafe(loop.stop)\n        future.result()", "        loop.stop()\n        future.result()"))
B('aw-stop-no-join', ['C17'], ['C17-R6'],
  (A, "        loop.call_soon_threadsafe(loop.stop)\n        future.result()  # Wait for loop to exit and reveal errors", "        loop.call_soon_threadsafe(loop.stop)"))
B('split-source-after-tee', ['C18'], ['C18-R1', 'C18-R3'],
  (I, "    return compress(i1, c1), compress(i2, map(op.not_, c2))", "    return compress(iterable, c1), compress(i2, map(op.not_, c2))"))
B('split-second-map-condition', ['C18'], ['C18-R2', 'C18-R3'],
  (I, """    if callable(condition):
        iterable, ci = tee(iterable)
        condition = map(condition, ci)
    i1, i2 = tee(iterable)
    c1, c2 = tee(condition)
    return compress(i1, c1), compress(i2, map(op.not_, c2))""", """    i1, i2 = tee(iterable)
    if callable(condition):
        i1, j1 = tee(i1)
        i2, j2 = tee(i2)
        return compress(i1, map(condition, j1)), compress(i2, map(op.not_, map(condition, j2)))
    c1, c2 = tee(condition)
    return compress(i1, c1), compress(i2, map(op.not_, c2))"""))
B('split-same-condition-copy', ['C18'], ['C18-R1'],
  (I, "    return compress(i1, c1), compress(i2, map(op.not_, c2))", "    return compress(i1, c1), compress(i2, map(op.not_, c1))"))
B('split-swapped-results', ['C18'], ['C18-R3'],
  (I, "    return compress(i1, c1), compress(i2, map(op.not_, c2))", "    return compress(i1, map(op.not_, c1)), compress(i2, c2)"))
B('split-eager', ['C18'], ['C18-R4'],
  (I, "    i1, i2 = tee(iterable)\n", "    i1, i2 = tee(list(iterable))\n"))
B('exhaust-first-only', ['C18'], ['C18-R5'],
  (I, "    deque(iterable, maxlen=0)", "    deque(iterable, maxlen=1)"))
B('exhaust-returns', ['C18'], ['C18-R5'],
  (I, "    deque(iterable, maxlen=0)", "    return deque(iterable, maxlen=0)"))
B('parse-rsplit', ['C19'], ['C19-R1'],
  (P, "k, v = pair.split(sep, 1)", "k, v = pair.rsplit(sep, 1)"))
B('parse-split-all', ['C19'], ['C19-R1'],
  (P, "k, v = pair.split(sep, 1)", "k, v = pair.split(sep)[:2]"))
B('parse-split-fixed-sep', ['C19'], ['C19-R1'],
  (P, "k, v = pair.split(sep, 1)", "k, v = pair.split('=', 1)"))
B('parse-missing-sep-keyerror', ['C19'], ['C19-R2'],
  (P, "                raise ValueError(f\"{pair} is not like KEY{sep}VALUE\") from e", "                raise KeyError(f\"{pair} is not like KEY{sep}VALUE\") from e"))
B('parse-missing-sep-accepted', ['C19'], ['C19-R2'],
  (P, "                raise ValueError(f\"{pair} is not like KEY{sep}VALUE\") from e", "                k, v = pair, None"))
B('parse-eval-default', ['C19'], ['C19-R3'],
  (P, "parse: Callable[[str], Any] = ast.literal_eval,", "parse: Callable[[str], Any] = eval,"))
B('parse-eval-fallback', ['C19'], ['C19-R3'],
  (P, "            except:  # noqa\n                pass\n        return x", "            except:  # noqa\n                try:\n                    return eval(x)\n                except Exception:\n                    pass\n        return x"))
B('parse-non-strings', ['C19'], ['C19-R4'],
  (P, "        if isinstance(x, str):\n            try:\n                return parse(x)", "        if True:\n            try:\n                return parse(x)"))
B('parse-only-valueerror', ['C19'], ['C19-R4'],
  (P, "            except:  # noqa\n                pass\n        return x", "            except ValueError:  # noqa\n                pass\n        return x"))
B('parse-keys-ignored', ['C19'], ['C19-R5'],
  (P, "            return key, try_parse(value)", "            return try_parse(key), try_parse(value)"))
B('parse-values-unparsed-without-keys', ['C19'], ['C19-R5'],
  (P, "            return key, try_parse(value)", "            return key, value"))
B('parse-mapping-bypasses', ['C19'], ['C19-R6'],
  (P, "    try:\n        items = items.items()  # type: ignore\n    except AttributeError:\n        pass\n\n    return dict(map(parse_pair, items))",
   "    if hasattr(items, 'items'):\n        return dict(items)\n\n    return dict(map(parse_pair, items))"))
B('gather-no-return-exceptions', ['C20'], ['C20-R1'],
  (A, "    for res in await aio.gather(*aws, return_exceptions=True):", "    for res in await aio.gather(*aws):"))
B('gather-exact-type', ['C20'], ['C20-R3'],
  (A, "        if isinstance(res, only):\n            yield res", "        if type(res) is only:\n            yield res"))
B('gather-sorted', ['C20'], ['C20-R2'],
  (A, "    for res in await aio.gather(*aws, return_exceptions=True):", "    for res in sorted(await aio.gather(*aws, return_exceptions=True), key=repr):"))
B('gather-as-completed', ['C20'], ['C20-R1'],
  (A, """    for res in await aio.gather(*aws, return_exceptions=True):
        if isinstance(res, only):
            yield res""", """    for fut in aio.as_completed(list(aws)):
        try:
            await fut
        except only as res:
            yield res"""))
B('raise-first-drops-filter', ['C20'], ['C20-R4'],
  (A, "    async for exc in gather_excs(aws, only):\n        raise exc", "    async for exc in gather_excs(aws):\n        raise exc"))
B('raise-first-returns-exc', ['C20'], ['C20-R4'],
  (A, "    async for exc in gather_excs(aws, only):\n        raise exc", "    async for exc in gather_excs(aws, only):\n        return exc"))
B('gather-yields-type', ['C20'], ['C20-R3'],
  (A, "        if isinstance(res, only):\n            yield res", "        if isinstance(res, only):\n            yield type(res)"))

T('it-rename-sentinel', ['C16', 'C03'], (A, "_DONE", "_END_OF_STREAM", 'all'))
T('it-test-flipped', ['C16'],
  (A, "        while (i := await q.get()) is not _DONE:\n            yield i  # type: ignore", "        while True:\n            i = await q.get()\n            if i is _DONE:\n                break\n            yield i  # type: ignore"))
T('aw-dispatch-reordered', ['C17'],
  (A, """    if loop.is_running():
        return await run_aw_threadsafe(aw, loop)

    if loop.is_closed():
        raise RuntimeError("Target loop is closed!")
""", """    if loop.is_closed():
        raise RuntimeError("Target loop is closed!")

    if loop.is_running():
        return await run_aw_threadsafe(aw, loop)
"""))
T('split-rename-locals', ['C18'], (I, "i1", "left", 'all'), (I, "c2", "negsel", 'all'))
T('parse-keyword-maxsplit', ['C19'], (P, "pair.split(sep, 1)", "pair.split(sep, maxsplit=1)"))
T('parse-except-exception', ['C19'], (P, "            except:  # noqa\n                pass\n        return x", "            except Exception:  # noqa\n                pass\n        return x"))
T('gather-via-variable', ['C20'],
  (A, "    for res in await aio.gather(*aws, return_exceptions=True):", "    results = await aio.gather(*aws, return_exceptions=True)\n    for res in results:"))
T('raise-first-keyword', ['C20'],
  (A, "    async for exc in gather_excs(aws, only):", "    async for exc in gather_excs(aws, only=only):"))


# -- helper extraction twins (inlined by the CFG builder) ---------------------
T('cache-finish-helper', ['C01', 'C05', 'C06', 'C14'],
  (A, """            if do_caching:  # No other task to wait for, cache the value
                try:""", """            if do_caching:  # No other task to wait for, cache the value
                def _finish() -> None:
                    with event_making_lock:
                        event.set()
                        if events.get(key, (None, None))[1] is event:
                            del events[key]

                try:"""),
  (A, """                finally:
                    with event_making_lock:
                        # Wake up any waiting tasks
                        event.set()
                        # Allow garbage collection and/or another loop
                        # to take over caching if this failed. Another
                        # loop may have taken over in the meantime, only
                        # remove the marker if it is still this task's.
                        if events.get(key, (None, None))[1] is event:
                            del events[key]
                return result""", """                finally:
                    _finish()
                return result"""))
T('cache-key-helper', ['C14', 'C01'],
  (A, "        key = args, frozenset(kwargs.items())\n", "        def _make_key(a: Any, k: Any) -> Any:\n            return a, frozenset(k.items())\n\n        key = _make_key(args, kwargs)\n"))

B('fl-ctx-releases-on-failed-acquire', ['C02'], ['C02-R8'],
  (F, """        if not self.acquire(blocking, timeout, poll_interval):
            raise TimeoutError("Failed to acquire file lock:", self._lock_file)
        try:
            yield""", """        try:
            if not self.acquire(blocking, timeout, poll_interval):
                raise TimeoutError("Failed to acquire file lock:", self._lock_file)
            yield"""))
B('bat-dispatcher-returns-on-empty', ['C04', 'C09'], ['C04-B8', 'C09-R5'],
  (A, "            tasks = await self._get_next_batch()\n", "            tasks = await self._get_next_batch()\n            if not tasks:\n                return\n"))
B('bat-filtered-batch', ['C10'], ['C10-R2'],
  (A, "                break\n        return tasks\n", "                break\n        return [t for t in tasks if not t[2].done()]\n"))
T('buf-loader-except-exception-and-cancel', ['C03'],
  (A, "            except BaseException:  # noqa\n                logger.exception(\"Failed to get args from: %r\", iterable)", "            except (Exception, aio.CancelledError):  # noqa\n                logger.exception(\"Failed to get args from: %r\", iterable)"))

B('cache-no-thread-lock', ['C01'], ['C01-R1'],
  (A, "    event_making_lock = Lock()\n", "    import contextlib\n    event_making_lock = contextlib.nullcontext()\n"))
B('cache-asyncio-lock', ['C01'], ['C01-R1'],
  (A, "    event_making_lock = Lock()\n", "    event_making_lock = aio.Lock()\n"),
  (A, "            with event_making_lock:\n                try:  # verify", "            async with event_making_lock:\n                try:  # verify"),
  (A, "                    with event_making_lock:\n                        # Wake up", "                    async with event_making_lock:\n                        # Wake up"))

B('bat-semaphore-removed', ['C10'], ['C10-R3'],
  (A, "        self._semaphore = aio.Semaphore(value=max_concurrent_batches)\n", ""),
  (A, "            async with self._semaphore:  # Limit concurrent executions", "            if True:"))

B('cache-marker-keeps-dead-loop', ['C01'], ['C01-R9'],
  (A, "                    caching_loop = aio.get_running_loop()\n                    event = aio.Event()", "                    event = aio.Event()"))
B('cache-marker-reuses-event', ['C01'], ['C01-R9', 'C01-R1'],
  (A, "                    caching_loop = aio.get_running_loop()\n                    event = aio.Event()\n                    events[key] = caching_loop, event", "                    caching_loop = aio.get_running_loop()\n                    events[key] = caching_loop, event"))

# --- round 2 rules ---------------------------------------------------------------------------------
B('reg-last-batcher-memo', ['C15'], ['C15-R3'],
  (A, "        = WeakKeyDict()\n", "        = WeakKeyDict()\n    batcher = None\n"),
  (A, """        loop = aio.get_running_loop()
        try:
            batcher = batchers[loop]
        except KeyError:
            batcher = batchers[loop] = AsyncBackgroundBatcher(""", """        nonlocal batcher
        loop = aio.get_running_loop()
        if batcher is None or batcher._loop is not loop:
            batcher = batchers.get(loop)
        if batcher is None:
            batcher = batchers[loop] = AsyncBackgroundBatcher("""))
B('bridge-bounded-queue-nowait', ['C16'], ['C16-TA12'],
  (A, "    q: 'aio.Queue[Union[T, object]]' = aio.Queue()\n", "    q: 'aio.Queue[Union[T, object]]' = aio.Queue(256)\n"))
T('bridge-queue-maxsize-zero', ['C16'],
  (A, "    q: 'aio.Queue[Union[T, object]]' = aio.Queue()\n", "    q: 'aio.Queue[Union[T, object]]' = aio.Queue(maxsize=0)\n"))
B('looplock-entry-popped-by-stopper', ['C17'], ['C17-R3'],
  (A, "        future.result()  # Wait for loop to exit and reveal errors\n", "        future.result()  # Wait for loop to exit and reveal errors\n        _LOOP_LOCKS.pop(id(loop), None)\n"))
B('looplock-entry-deleted-after-run', ['C17'], ['C17-R3'],
  (A, "        future.result()  # Wait for loop to exit and reveal errors\n", "        future.result()  # Wait for loop to exit and reveal errors\n        del _LOOP_LOCKS[id(loop)]\n"))
B('split-closes-source', ['C18'], ['C18-R6'],
  (I, "    return compress(i1, c1), compress(i2, map(op.not_, c2))\n", "    if hasattr(iterable, 'close'):\n        iterable.close()\n    return compress(i1, c1), compress(i2, map(op.not_, c2))\n"))
B('parse-strips-before-parsing', ['C19'], ['C19-R4'],
  (P, "        if isinstance(x, str):\n            try:\n                return parse(x)", "        if isinstance(x, str):\n            x = x.strip()\n            try:\n                return parse(x)"))
T('parse-local-copy-of-x', ['C19'],
  (P, "        if isinstance(x, str):\n            try:\n                return parse(x)", "        text = x\n        if isinstance(text, str):\n            try:\n                return parse(text)"))
B('cache-unbound-result-on-failure', ['C01'], ['C01-U1'],
  (A, """                else:
                    _cache[key] = result  # Cache for other tasks
                finally:
                    with event_making_lock:
                        # Wake up any waiting tasks
                        event.set()""", """                else:
                    _cache[key] = result  # Cache for other tasks
                finally:
                    with event_making_lock:
                        logger.debug('computed %r', result)
                        # Wake up any waiting tasks
                        event.set()"""))

# --- round 3 rules (pass 8 / seeded wave 9) ----------------------------------------------------------
_FLOCK = "        fcntl.flock(fd,  fcntl.LOCK_EX | (0 if block else fcntl.LOCK_NB))\n"
B('oslock-retry-runs-out', ['C02'], ['C02-R5'],
  (F, _FLOCK, """        flags = fcntl.LOCK_EX | (0 if block else fcntl.LOCK_NB)
        for attempt in range(1, 4):
            try:
                return fcntl.flock(fd, flags)
            except OSError as e:
                if e.errno != 37 or attempt > 3:
                    raise
                time.sleep(0.01 * attempt)
"""))
T('oslock-retry-gives-up', ['C02'],
  (F, _FLOCK, """        flags = fcntl.LOCK_EX | (0 if block else fcntl.LOCK_NB)
        for attempt in range(1, 4):
            try:
                return fcntl.flock(fd, flags)
            except OSError as e:
                if e.errno != 37 or attempt >= 3:
                    raise
                time.sleep(0.01 * attempt)
"""))
B('oslock-swallowed-refusal', ['C02'], ['C02-R5'],
  (F, _FLOCK, """        try:
            fcntl.flock(fd,  fcntl.LOCK_EX | (0 if block else fcntl.LOCK_NB))
        except InterruptedError:
            pass
"""))
B('oslock-lockf-fallback', ['C02'], ['C02-R5'],
  (F, _FLOCK, """        flags = fcntl.LOCK_EX | (0 if block else fcntl.LOCK_NB)
        try:
            fcntl.flock(fd, flags)
        except OSError as exc:
            if exc.errno in (11, 13):
                raise
            fcntl.lockf(fd, flags)
"""))
_ACQ_CTX_END = """        try:
            yield
        finally:
            self.release()

    def release(self, force: bool = False) -> None:"""
T('lock-try-ctx-reports-answer', ['C02', 'C12'],
  (F, _ACQ_CTX_END, """        try:
            yield
        finally:
            self.release()

    def try_acquire(self) -> bool:
        return self.acquire(blocking=False)

    @contextlib.contextmanager
    def try_acquire_ctx(self) -> Yields[bool]:
        if not self.try_acquire():
            yield False
            return
        try:
            yield True
        finally:
            self.release()

    def release(self, force: bool = False) -> None:"""))
B('lock-try-ctx-promises-without-lock', ['C02'], ['C02-R12'],
  (F, _ACQ_CTX_END, """        try:
            yield
        finally:
            self.release()

    @contextlib.contextmanager
    def try_acquire_ctx(self) -> Yields[bool]:
        if not self.acquire(blocking=False):
            yield True
            return
        try:
            yield True
        finally:
            self.release()

    def release(self, force: bool = False) -> None:"""))
B('lock-try-ctx-keeps-lock', ['C12'], ['C12-R14'],
  (F, _ACQ_CTX_END, """        try:
            yield
        finally:
            self.release()

    @contextlib.contextmanager
    def try_acquire_ctx(self) -> Yields[bool]:
        got = self.acquire(blocking=False)
        yield got

    def release(self, force: bool = False) -> None:"""))
T('lock-try-ctx-yields-result', ['C02', 'C12'],
  (F, _ACQ_CTX_END, """        try:
            yield
        finally:
            self.release()

    @contextlib.contextmanager
    def try_acquire_ctx(self) -> Yields[bool]:
        got = self.acquire(blocking=False)
        try:
            yield got
        finally:
            if got:
                self.release()

    def release(self, force: bool = False) -> None:"""))
_DELIVER = """                async for key, result in self.func(args):
                    fut = futs.pop(key)
"""
B('bat-results-buffered', ['C04', 'C09'], ['C04-B11', 'C09-R6'],
  (A, """                async for key, result in self.func(args):
                    fut = futs.pop(key)
                    if isinstance(result, Exception):
                        fut.set_exception(result)
                    else:
                        fut.set_result(result)
""", """                results = [kr async for kr in self.func(args)]
            for key, result in results:
                fut = futs.pop(key)
                if isinstance(result, Exception):
                    fut.set_exception(result)
                else:
                    fut.set_result(result)
"""))
B('bat-iterable-aclosed', ['C04'], ['C04-B11'],
  (A, "            async with self._semaphore:  # Limit concurrent executions\n", "            async with self._semaphore, contextlib.aclosing(self.func(args)) as results:\n"),
  (A, "                async for key, result in self.func(args):\n", "                async for key, result in results:\n"),
  (A, "from itertools import islice\n", "from itertools import islice\nimport contextlib\n"))
T('bat-iterable-in-a-local', ['C04', 'C09'],
  (A, "                async for key, result in self.func(args):\n", "                results = self.func(args)\n                async for key, result in results:\n"))
B('bat-popped-then-skipped', ['C04'], ['C04-B5'],
  (A, _DELIVER, _DELIVER + "                    if key in self._skip:\n                        continue\n"),
  (A, "        self._retention_cache = {}\n", "        self._retention_cache = {}\n        self._skip: Set[str] = set()\n"))
T('bat-popped-done-skipped', ['C04'],
  (A, _DELIVER, _DELIVER + "                    if fut.done():\n                        continue\n"))
_RUN = """            if inputs:  # Could be empty if all empty iterators
                await self.func(inputs)
"""
B('buf-bookkeeping-after-success-in-try', ['C03'], ['C03-S11'],
  (A, _RUN, _RUN + "                self._rate = len(inputs) / (self.loop.time() - self._t0)\n"),
  (A, "        self._getting: Optional['aio.Task[AsyncIterable[T]]'] = None\n", "        self._getting: Optional['aio.Task[AsyncIterable[T]]'] = None\n        self._t0 = 0.\n        self._rate = 0.\n"))
T('buf-bookkeeping-after-success-in-else', ['C03'],
  (A, "        else:\n            self.event.set()\n\n    def _schedule_with_timeout", "        else:\n            self.event.set()\n            self._calls = getattr(self, '_calls', 0) + 1\n\n    def _schedule_with_timeout"))
B('cache-own-exception-on-wait-path', ['C06'], ['C06-R9'],
  (A, "            # Need to wait for another task, possibly across threads\n", "            # Need to wait for another task, possibly across threads\n            if kwargs.get('_nowait'):\n                raise RuntimeError('value is being computed')\n"))
T('cache-cannot-happen-narrowing', ['C06'],
  (A, "            # Need to wait for another task, possibly across threads\n", "            # Need to wait for another task, possibly across threads\n            if event is None:\n                raise RuntimeError('no event')\n"))
T('lock-release-hook-after-everything', ['C12'],
  (F, """        except RuntimeError:  # not reentrant and already unlocked
            pass
""", """        except RuntimeError:  # not reentrant and already unlocked
            pass
        hook = getattr(self, '_on_release', None)
        if hook is not None:
            try:
                hook(self)
            except Exception:
                pass
"""))
T('bat-match-on-result-type', ['C04', 'C09'],
  (A, """                    if isinstance(result, Exception):
                        fut.set_exception(result)
                    else:
                        fut.set_result(result)
""", """                    match result:
                        case Exception():
                            fut.set_exception(result)
                        case _:
                            fut.set_result(result)
"""))
T('cache-match-on-loop-state', ['C01', 'C05', 'C06', 'C14'],
  (A, """                    if (caching_loop.is_closed()
                            or not caching_loop.is_running()):
                        raise KeyError  # Invalidate loop
""", """                    match (caching_loop.is_closed(), caching_loop.is_running()):
                        case (True, _) | (_, False):
                            raise KeyError  # Invalidate loop
"""))
T('lock-match-on-timeout', ['C12', 'C02'],
  (F, """        if timeout is None:
            timeout = self.timeout if blocking else -1
        else:
            blocking = blocking if timeout < 0 else True
""", """        match timeout:
            case None:
                timeout = self.timeout if blocking else -1
            case _:
                blocking = blocking if timeout < 0 else True
"""))
# --- idioms of maintenance pull requests (micro-optimisations, testability seams) ---------------------
T('lock-module-seams-for-clock-and-sleep', ['C12', 'C02'],
  (F, "_logger = logging.getLogger(__name__)\n", "_logger = logging.getLogger(__name__)\n_sleep = time.sleep\n_now = time.time\n"),
  (F, "        start_time = time.time()\n", "        start_time = _now()\n"),
  (F, "                elif 0 <= timeout < time.time() - start_time:\n", "                elif 0 <= timeout < _now() - start_time:\n"),
  (F, "                    time.sleep(poll_interval)\n", "                    _sleep(poll_interval)\n"))
T('lock-class-seams-for-clock-and-sleep', ['C12', 'C02'],
  (F, "    def __init__(self,\n                 lock_file: PathLike,", "    _sleep = staticmethod(time.sleep)\n    _now = staticmethod(time.time)\n\n    def __init__(self,\n                 lock_file: PathLike,"),
  (F, "        start_time = time.time()\n", "        start_time = self._now()\n"),
  (F, "                elif 0 <= timeout < time.time() - start_time:\n", "                elif 0 <= timeout < self._now() - start_time:\n"),
  (F, "                    time.sleep(poll_interval)\n", "                    self._sleep(poll_interval)\n"))
T('lock-bound-release-in-a-local', ['C12'],
  (F, """            for _ in range(levels):
                self._thread_lock.release()
""", """            release_level = self._thread_lock.release
            for _ in range(levels):
                release_level()
"""))
T('cache-event-factory-seam', ['C01', 'C05', 'C06', 'C14'],
  (A, "    event_making_lock = Lock()\n", "    event_making_lock = Lock()\n    new_event = aio.Event\n"),
  (A, "                    event = aio.Event()\n", "                    event = new_event()\n"))
T('buf-bound-get-nowait-in-a-local', ['C03', 'C07', 'C08'],
  (A, "                yield self.q.get_nowait()\n", "                yield get_nowait()\n"),
  (A, "        while True:\n            try:\n                yield get_nowait()", "        get_nowait = self.q.get_nowait\n        while True:\n            try:\n                yield get_nowait()"))
T('buf-queue-and-event-factories', ['C03', 'C07', 'C08'],
  (A, "        self.q: 'aio.Queue[AsyncIterable[T]]' = aio.Queue()\n", "        self.q: 'aio.Queue[AsyncIterable[T]]' = self._make_queue()\n"),
  (A, "    def _empty_queue(self) -> Yields[AsyncIterable[T]]:\n", "    def _make_queue(self) -> 'aio.Queue[AsyncIterable[T]]':\n        \"\"\"Seam for tests.\"\"\"\n        return aio.Queue()\n\n    def _empty_queue(self) -> Yields[AsyncIterable[T]]:\n"))
T('bat-queue-factory-and-semaphore-seam', ['C04', 'C09', 'C10', 'C11', 'C15'],
  (A, "        self._queue = aio.Queue()\n", "        self._queue = self._make_queue()\n"),
  (A, "        self._semaphore = aio.Semaphore(value=max_concurrent_batches)\n", "        self._semaphore = self._semaphore_cls(value=max_concurrent_batches)\n"),
  (A, "    async def _processing_loop(self) -> None:\n", "    _semaphore_cls = aio.Semaphore\n\n    def _make_queue(self) -> 'aio.Queue[Any]':\n        return aio.Queue()\n\n    async def _processing_loop(self) -> None:\n"))
T('cache-role-enum-instead-of-bool', ['C01', 'C05', 'C06', 'C14'],
  (A, "E = TypeVar('E', bound=BaseException)\n", "import enum\n\n\nclass _Role(enum.Enum):\n    OWNER = 'owner'\n    WAITER = 'waiter'\n\n\nE = TypeVar('E', bound=BaseException)\n"),
  (A, "                    do_caching = True\n", "                    role = _Role.OWNER\n"),
  (A, "                    do_caching = False  # Need to wait for other loop\n", "                    role = _Role.WAITER  # Need to wait for other loop\n"),
  (A, "            if do_caching:  # No other task to wait for, cache the value\n", "            if role is _Role.OWNER:  # No other task to wait for, cache the value\n"))
T('cache-role-strings-instead-of-bool', ['C01', 'C05', 'C06', 'C14'],
  (A, "                    do_caching = True\n", "                    role = 'owner'\n"),
  (A, "                    do_caching = False  # Need to wait for other loop\n", "                    role = 'waiter'  # Need to wait for other loop\n"),
  (A, "            if do_caching:  # No other task to wait for, cache the value\n", "            if role == 'owner':  # No other task to wait for, cache the value\n"))
T('bat-queue-entries-frozen-dataclass', ['C04', 'C09', 'C10', 'C11'],
  (A, "E = TypeVar('E', bound=BaseException)\n", "import dataclasses\n\n\n@dataclasses.dataclass(frozen=True)\nclass _Entry:\n    key: Any\n    arg: Any\n    fut: Any\n\n\nE = TypeVar('E', bound=BaseException)\n"),
  (A, "        await self._queue.put((key, arg, fut))\n", "        await self._queue.put(_Entry(key, arg, fut))\n"),
  (A, "        args = [t[:2] for t in tasks]\n        futs = {k: f for k, _, f in tasks}\n", "        args = [(t.key, t.arg) for t in tasks]\n        futs = {t.key: t.fut for t in tasks}\n"))
T('lock-cannot-happen-assertion-in-release', ['C12', 'C02'],
  (F, "        self._decrement_lock_counter()\n        levels = 1", "        if self._lock_counter < 0:\n            raise AssertionError('lock counter underflow')\n        self._decrement_lock_counter()\n        levels = 1"))
T('bat-asserts-and-narrowing', ['C04', 'C09', 'C10', 'C11'],
  (A, "        args = [t[:2] for t in tasks]\n", "        assert tasks, 'never called with an empty batch'\n        if self._semaphore is None:\n            raise AssertionError('semaphore not initialised')\n        args = [t[:2] for t in tasks]\n"))

# --- rules from the second half of seeded wave 9 ------------------------------------------------------
B('cache-decorator-returns-func-early', ['C14'], ['C14-R5'],
  (A, "    # Avoid type narrowing issues related to:\n    # https://github.com/python/mypy/issues/13123\n    _cache: _CacheMap",
      "    if getattr(func, '_is_cached', False):\n        return func\n    # Avoid type narrowing issues related to:\n    # https://github.com/python/mypy/issues/13123\n    _cache: _CacheMap"))
B('split-class-predicate-hijacked', ['C18'], ['C18-R2'],
  (I, "    if callable(condition):\n        iterable, ci = tee(iterable)", "    if isinstance(condition, type):\n        condition = partial(_isinst, condition)\n    if callable(condition):\n        iterable, ci = tee(iterable)"),
  (I, "def exhaust(", "def _isinst(types: Any, value: Any) -> bool:\n    return isinstance(value, types)\n\n\ndef exhaust("),
  (I, "from itertools import tee, compress\n", "from functools import partial\nfrom itertools import tee, compress\n"))
B('exhaust-swallows-typeerror', ['C18'], ['C18-R5'],
  (I, "    deque(iterable, maxlen=0)\n", "    try:\n        deque(iterable, maxlen=0)\n    except TypeError as exc:\n        if 'is not iterable' not in str(exc):\n            raise\n"))
T('exhaust-reraises-with-note', ['C18'],
  (I, "    deque(iterable, maxlen=0)\n", "    try:\n        deque(iterable, maxlen=0)\n    except TypeError:\n        raise\n"))
B('parse-none-result-discarded', ['C19'], ['C19-R4'],
  (P, "            try:\n                return parse(x)\n            except:  # noqa\n                pass\n", "            try:\n                parsed = parse(x)\n            except:  # noqa\n                pass\n            else:\n                if parsed is not None:\n                    return parsed\n"))
T('parse-result-through-a-local', ['C19'],
  (P, "            try:\n                return parse(x)\n            except:  # noqa\n                pass\n", "            try:\n                parsed = parse(x)\n            except:  # noqa\n                pass\n            else:\n                return parsed\n"))
B('parse-blank-separator-refused', ['C19'], ['C19-R2'],
  (P, "    def try_parse(x: Any) -> Any:\n", "    if not sep.strip():\n        raise ValueError(f'sep must not be blank: {sep!r}')\n\n    def try_parse(x: Any) -> Any:\n"))
T('parse-empty-separator-refused', ['C19'],
  (P, "    def try_parse(x: Any) -> Any:\n", "    if not sep:\n        raise ValueError('sep must not be empty')\n\n    def try_parse(x: Any) -> Any:\n"))
B('parse-item-normalised-before-split', ['C19'], ['C19-R1'],
  (P, "        if isinstance(pair, str):\n            try:\n                k, v = pair.split(sep, 1)", "        if isinstance(pair, str):\n            pair = pair.strip()\n            try:\n                k, v = pair.split(sep, 1)"))

# --- indirect breaks: the platform alias --------------------------------------------------------------
B('lock-alias-arms-swapped', ['C02'], ['C02-R5'],
  (F, "if msvcrt:\n    FileLock = WindowsFileLock  # type: ignore\nelif fcntl:\n    FileLock = UnixFileLock  # type: ignore\n",
      "if fcntl:\n    FileLock = WindowsFileLock  # type: ignore\nelif msvcrt:\n    FileLock = UnixFileLock  # type: ignore\n"))
B('lock-alias-fallback-is-unix', ['C02'], ['C02-R5'],
  (F, "FileLock = _UnsupportedFileLock\n\nif msvcrt:", "FileLock = UnixFileLock\n\nif msvcrt:"))
T('lock-alias-tests-is-not-none', ['C02'],
  (F, "if msvcrt:\n    FileLock = WindowsFileLock  # type: ignore\nelif fcntl:\n    FileLock = UnixFileLock  # type: ignore\n",
      "if msvcrt is not None:\n    FileLock = WindowsFileLock  # type: ignore\nelif fcntl is not None:\n    FileLock = UnixFileLock  # type: ignore\n"))
B('buf-queue-bounded', ['C03'], ['C03-S8'],
  (A, "        self.q: 'aio.Queue[AsyncIterable[T]]' = aio.Queue()\n", "        self.q: 'aio.Queue[AsyncIterable[T]]' = aio.Queue(maxsize=1024)\n"))
# --- indirect breaks probed by hand -------------------------------------------------------------------
B('buf-daemon-on-a-private-loop', ['C03'], ['C03-S8'],
  (A, "        self.loop = aio.get_event_loop()\n", "        self.loop = aio.new_event_loop()\n"))
B('lock-is-locked-reads-the-counter', ['C02', 'C12'], ['C02-R1', 'C12-R1'],
  (F, "        return self._lock_file_fd is not None\n", "        return self._lock_counter > 0\n"))
B('buf-awaitable-adaptor-does-not-await', ['C03'], ['C03-S7'],
  (A, "    yield await o\n", "    yield o\n"))

# --- rules from seeded wave 10 (indirect changes) ------------------------------------------------------
B('lock-setstate-carries-held-state', ['C02'], ['C02-R3'],
  (F, "    def __enter__(self: FileLockT) -> FileLockT:\n", "    def __getstate__(self) -> Any:\n        state = self.__dict__.copy()\n        del state['_thread_lock']\n        return state\n\n    def __setstate__(self, state: Any) -> None:\n        self.__dict__.update(state)\n        self._thread_lock = threading.RLock() if self._reentrant else threading.Lock()\n\n    def __enter__(self: FileLockT) -> FileLockT:\n"))
T('lock-setstate-resets-held-state', ['C02'],
  (F, "    def __enter__(self: FileLockT) -> FileLockT:\n", "    def __getstate__(self) -> Any:\n        state = self.__dict__.copy()\n        del state['_thread_lock']\n        return state\n\n    def __setstate__(self, state: Any) -> None:\n        self.__dict__.update(state)\n        self._thread_lock = threading.RLock() if self._reentrant else threading.Lock()\n        self._lock_file_fd = None\n        self._lock_counter = 0\n\n    def __enter__(self: FileLockT) -> FileLockT:\n"))
B('lock-exit-forces-on-exception', ['C12'], ['C12-R14'],
  (F, "    def __exit__(self, *_exc: Any) -> None:\n        self.release()\n", "    def __exit__(self, exc_type: Any = None, *_exc: Any) -> None:\n        self.release(force=exc_type is not None)\n"))
B('lock-path-normalised', ['C02'], ['C02-R9'],
  (F, "        self._lock_file: PathLike = lock_file\n", "        self._lock_file: PathLike = os.path.normpath(lock_file)\n"))
T('lock-path-fspath', ['C02'],
  (F, "        self._lock_file: PathLike = lock_file\n", "        self._lock_file: PathLike = os.fspath(lock_file)\n"))
B('lock-release-closes-without-unlock', ['C02'], ['C02-R6'],
  (F, "        try:\n            self._unlock(fd)\n        finally:\n            os.close(fd)\n", "        try:\n            os.close(fd)\n        except OSError:\n            self._unlock(fd)\n            raise\n"))
B('loop-in-thread-runs-loop-again', ['C17'], ['C17-R7'],
  (A, "            aio.set_event_loop(loop)\n            loop.run_forever()\n", "            aio.set_event_loop(loop)\n            try:\n                loop.run_forever()\n            finally:\n                loop.run_until_complete(loop.shutdown_asyncgens())\n"))
B('buf-logging-name-unbound', ['C03'], ['C03-U1'],
  (A, "import logging\n", "from logging import getLogger\n"),
  (A, "logger = logging.getLogger(__name__)\n", "logger = getLogger(__name__)\n"))
B('buf-map-snapshots-in-the-caller', ['C03'], ['C03-S7'],
  (A, "        self._put(to_async_iter(_args))\n", "        _args = tuple(_args)\n        self._put(to_async_iter(_args))\n"))
B('buf-handler-sorts-the-inputs', ['C03'], ['C03-S3'],
  (A, "            logging.exception(\"Failed to run %s, retrying\", self.func)\n", "            logging.exception(\"Failed to run %s, retrying with %s\", self.func, sorted(inputs))\n"))
B('buf-func-wrapped-in-init', ['C08'], ['C08-D1'],
  (A, "        self.func = func\n        #: Timeout in seconds to wait after the last element", "        self.func = wraps(func)(func) if aio.iscoroutinefunction(func) else func\n        #: Timeout in seconds to wait after the last element"))
B('bat-done-callback-fails-pending', ['C09'], ['C09-R7'],
  (A, "    async def _processing_loop(self) -> None:\n", "    def _fail_pending(self, exc: BaseException) -> None:\n        for fut in self._retention_cache.values():\n            if not fut.done():\n                fut.set_exception(exc)\n\n    async def _processing_loop(self) -> None:\n"))
B('bat-memo-of-last-batcher-copied', ['C15'], ['C15-R3'],
  (A, "        = WeakKeyDict()\n", "        = WeakKeyDict()\n    current = None\n"),
  (A, """        loop = aio.get_running_loop()
        try:
            batcher = batchers[loop]
        except KeyError:
            batcher = batchers[loop] = AsyncBackgroundBatcher(""", """        nonlocal current
        loop = aio.get_running_loop()
        batcher = current
        if batcher is None or not batcher._loop.is_running():
          try:
            batcher = batchers[loop]
          except KeyError:
            batcher = batchers[loop] = AsyncBackgroundBatcher("""))
B('bridge-sentinel-is-none', ['C16'], ['C16-TA2'],
  (A, "_DONE = object()\n", "_DONE = None\n"))

# --- rules from seeded wave 10, second batch -----------------------------------------------------------
B('bat-retention-cache-with-a-cap', ['C11'], ['C11-R6'],
  (A, "        self._retention_cache = {}\n", "        self._retention_cache = _Capped()\n"),
  (A, "E = TypeVar('E', bound=BaseException)\n", "class _Capped(dict):  # type: ignore\n    def __setitem__(self, k: Any, v: Any) -> None:\n        if len(self) > 1024:\n            del self[next(iter(self))]\n        super().__setitem__(k, v)\n\n\nE = TypeVar('E', bound=BaseException)\n"))
T('bat-retention-cache-plain-subclass', ['C11', 'C04'],
  (A, "        self._retention_cache = {}\n", "        self._retention_cache = _Futures()\n"),
  (A, "E = TypeVar('E', bound=BaseException)\n", "class _Futures(dict):  # type: ignore\n    \"\"\"key -> future\"\"\"\n\n\nE = TypeVar('E', bound=BaseException)\n"))
B('bat-option-descriptor-keeps-value', ['C11'], ['C11-R7'],
  (A, "    retention_timeout: float\n", "    retention_timeout = _Seconds()\n"),
  (A, "E = TypeVar('E', bound=BaseException)\n", "class _Seconds:\n    def __get__(self, obj: Any, objtype: Any = None) -> Any:\n        return self if obj is None else self.seconds\n\n    def __set__(self, obj: Any, value: float) -> None:\n        self.seconds = float(value)\n\n\nE = TypeVar('E', bound=BaseException)\n"))
T('bat-option-descriptor-per-instance', ['C11'],
  (A, "    retention_timeout: float\n", "    retention_timeout = _Seconds()\n"),
  (A, "E = TypeVar('E', bound=BaseException)\n", "class _Seconds:\n    def __get__(self, obj: Any, objtype: Any = None) -> Any:\n        return self if obj is None else obj.__dict__['_rt']\n\n    def __set__(self, obj: Any, value: float) -> None:\n        obj.__dict__['_rt'] = float(value)\n\n\nE = TypeVar('E', bound=BaseException)\n"))
B('lock-default-timeout-or-minus-one', ['C12'], ['C12-R6'],
  (F, "        self.timeout: float = timeout\n", "        self.timeout: float = timeout or -1\n"))
B('cache-kwargs-helper-misaligned', ['C14'], ['C14-R1'],
  (A, "        key = args, frozenset(kwargs.items())\n", "        key = args, _kwargs_key(kwargs)\n"),
  (A, "E = TypeVar('E', bound=BaseException)\n", "def _kwargs_key(kwargs: Any) -> Any:\n    if not kwargs:\n        return frozenset()\n    return tuple(sorted(kwargs)), tuple(kwargs.values())\n\n\nE = TypeVar('E', bound=BaseException)\n"))
T('cache-kwargs-helper-faithful', ['C14'],
  (A, "        key = args, frozenset(kwargs.items())\n", "        key = args, _kwargs_key(kwargs)\n"),
  (A, "E = TypeVar('E', bound=BaseException)\n", "def _kwargs_key(kwargs: Any) -> Any:\n    return frozenset(kwargs.items())\n\n\nE = TypeVar('E', bound=BaseException)\n"))
B('split-decorated-repacks-results', ['C18'], ['C18-U1'],
  (I, "def split(", "def _yielding(func: Any) -> Any:\n    def _wrapper(*args: Any, **kwargs: Any) -> Any:\n        a, b = func(*args, **kwargs)\n        return iter(a), iter(b)\n    return _wrapper\n\n\n@_yielding\ndef split("))
T('split-decorated-transparently', ['C18'],
  (I, "def split(", "def _traced(func: Any) -> Any:\n    def _wrapper(*args: Any, **kwargs: Any) -> Any:\n        return func(*args, **kwargs)\n    return _wrapper\n\n\n@_traced\ndef split("))
B('gather-filter-refused-for-baseexception', ['C20'], ['C20-R1'],
  (A, "    for res in await aio.gather(*aws, return_exceptions=True):\n", "    if not issubclass(only, Exception):\n        raise TypeError('only must be an exception class')\n    for res in await aio.gather(*aws, return_exceptions=True):\n"))
B('gather-awaitables-wrapped', ['C20'], ['C20-R1'],
  (A, "    for res in await aio.gather(*aws, return_exceptions=True):\n", "    aws = [aio.shield(a) for a in aws]\n    for res in await aio.gather(*aws, return_exceptions=True):\n"))
T('gather-awaitables-materialised', ['C20'],
  (A, "    for res in await aio.gather(*aws, return_exceptions=True):\n", "    aws = list(aws)\n    for res in await aio.gather(*aws, return_exceptions=True):\n"))
T('lock-acquire-timed-by-a-transparent-decorator', ['C02', 'C12'],
  (F, "_logger = logging.getLogger(__name__)\n", "_logger = logging.getLogger(__name__)\n\n\ndef _timed(func: Any) -> Any:\n    import functools\n\n    @functools.wraps(func)\n    def _wrapper(self: Any, *args: Any, **kwargs: Any) -> Any:\n        started = time.time()\n        try:\n            return func(self, *args, **kwargs)\n        finally:\n            _logger.debug('%s took %.3fs', func.__name__, time.time() - started)\n    return _wrapper\n"),
  (F, "    def acquire(self,\n", "    @_timed\n    def acquire(self,\n"))
T('cache-decorator-traced-by-a-factory', ['C01', 'C14'],
  (A, "E = TypeVar('E', bound=BaseException)\n", "def _traced(label: str) -> Any:\n    def _deco(func: Any) -> Any:\n        @wraps(func)\n        def _w(*args: Any, **kwargs: Any) -> Any:\n            logger.debug('%s called', label)\n            return func(*args, **kwargs)\n        return _w\n    return _deco\n\n\nE = TypeVar('E', bound=BaseException)\n"),
  (A, "def threadsafe_async_cache(\n    func: Optional[_AsyncFunc] = None,\n", "@_traced('cache')\ndef threadsafe_async_cache(\n    func: Optional[_AsyncFunc] = None,\n"))

# --- rules from seeded wave 11 (indirect, second round) -------------------------------------------------
B('cache-table-prunes-on-insert', ['C01'], ['C01-R1'],
  (A, "    events: Dict[Tuple[Any, ...], Tuple[aio.AbstractEventLoop, aio.Event]] = {}\n", "    events: Dict[Tuple[Any, ...], Tuple[aio.AbstractEventLoop, aio.Event]] = _Table()\n"),
  (A, "E = TypeVar('E', bound=BaseException)\n", "class _Table(dict):  # type: ignore\n    def __setitem__(self, k: Any, v: Any) -> None:\n        for old in [q for q, (lp, _) in self.items() if lp.is_closed()]:\n            self.pop(old, None)\n        super().__setitem__(k, v)\n\n\nE = TypeVar('E', bound=BaseException)\n"))
B('cache-table-from-a-module-registry', ['C01'], ['C01-R1'],
  (A, "    events: Dict[Tuple[Any, ...], Tuple[aio.AbstractEventLoop, aio.Event]] = {}\n", "    events: Dict[Tuple[Any, ...], Tuple[aio.AbstractEventLoop, aio.Event]] = _IN_FLIGHT.setdefault(getattr(func, '__qualname__', ''), {})\n"),
  (A, "E = TypeVar('E', bound=BaseException)\n", "_IN_FLIGHT: Dict[str, Any] = {}\n\nE = TypeVar('E', bound=BaseException)\n"))
B('cache-func-behind-a-weak-trampoline', ['C14'], ['C14-R3'],
  (A, "    _func: _AsyncFunc = func\n    del cache, func\n", "    _func: _AsyncFunc = func\n    if hasattr(func, '__self__'):\n        import weakref\n        method = weakref.WeakMethod(func)\n\n        def _func(*args: Any, **kwargs: Any) -> Any:  # type: ignore\n            return method()(*args, **kwargs)\n    del cache, func\n"))
B('buf-daemon-held-weakly', ['C08'], ['C08-D1'],
  (A, "        self._waiting = DaemonTask(\n            self._waiter(),\n            loop=self.loop,\n            name=f\"Buffering {self.func!r}\",\n        )\n",
      "        import weakref\n        self._waiting = weakref.ref(DaemonTask(\n            self._waiter(),\n            loop=self.loop,\n            name=f\"Buffering {self.func!r}\",\n        ))\n"))
B('buf-wait-resets-the-timer-attribute', ['C07'], ['C07-W4'],
  (A, "        await self.event.wait()\n\n    async def wait_from_anywhere", "        await self.event.wait()\n        self._getting = None\n\n    async def wait_from_anywhere"))
B('bat-batch-sorted-in-place', ['C10'], ['C10-R4'],
  (A, "                break\n        return tasks\n", "                break\n        tasks.sort()\n        return tasks\n"))
B('bat-flush-overwrites-an-option', ['C10'], ['C10-R5'],
  (A, "    async def _processing_loop(self) -> None:\n", "    async def flush(self) -> None:\n        saved, self.batch_timeout = self.batch_timeout, 0\n        try:\n            await aio.sleep(0)\n        finally:\n            self.batch_timeout = saved\n\n    async def _processing_loop(self) -> None:\n"))
B('bat-dispatcher-cancels-a-batch', ['C09'], ['C09-R7'],
  (A, "            self._daemon_task(  # noqa\n                self._process_batch(tasks),\n                name=\"async-bg-batcher-process-batch\",\n            )\n",
      "            batch = self._daemon_task(  # noqa\n                self._process_batch(tasks),\n                name=\"async-bg-batcher-process-batch\",\n            )\n            for _, _, fut in tasks:\n                fut.add_done_callback(lambda _f: batch.cancel() if all(t[2].cancelled() for t in tasks) else None)\n"))
T('bat-close-cancels-the-dispatcher', ['C09', 'C04'],
  (A, "    async def _processing_loop(self) -> None:\n", "    def close(self) -> None:\n        \"\"\"Stop batching: pending callers are on their own.\"\"\"\n        self._closing = True\n        for t in aio.all_tasks(self._loop):\n            if t.get_name().startswith('async-bg-batcher'):\n                t.cancel()\n\n    async def _processing_loop(self) -> None:\n"))
B('bat-dispatcher-evicts-by-key', ['C09'], ['C09-R7'],
  (A, "    async def _processing_loop(self) -> None:\n", "    def _forget(self, key: str) -> None:\n        self._retention_cache.pop(key, None)\n\n    async def _processing_loop(self) -> None:\n"))

# --- rules from seeded wave 11, second batch -----------------------------------------------------------
B('bat-retention-cache-rebuilt', ['C09'], ['C09-R7'],
  (A, "    async def _processing_loop(self) -> None:\n", "    def _trim(self) -> None:\n        self._retention_cache = dict(self._retention_cache)\n\n    async def _processing_loop(self) -> None:\n"))
B('oslock-unlock-hook-is-a-noop', ['C02'], ['C02-R5'],
  (F, "    def _unlock(self, fd: int) -> None:\n        fcntl.flock(fd, fcntl.LOCK_UN)\n", "    def _unlock(self, fd: int) -> None:\n        pass  # the close that follows drops the flock\n"))
B('sync-bridge-holds-the-loop-lock', ['C17'], ['C17-R2'],
  (A, "    with ThreadPoolExecutor(1) as pool:\n        future = pool.submit(_set_loop_and_queue_elements, loop)", "    with ThreadPoolExecutor(1) as pool, _get_loop_lock(loop):\n        future = pool.submit(_set_loop_and_queue_elements, loop)"))
B('split-source-wrapped-in-a-view', ['C18'], ['C18-R3'],
  (I, "    if callable(condition):\n        iterable, ci = tee(iterable)", "    iterable = iter(iterable)\n    if callable(condition):\n        iterable, ci = tee(iterable)"))
B('split-predicate-tried-on-the-first-element', ['C18'], ['C18-R2'],
  (I, "    if callable(condition):\n        iterable, ci = tee(iterable)", "    if callable(condition):\n        condition = _checked(condition, iterable)\n        iterable, ci = tee(iterable)"),
  (I, "def exhaust(", "def _checked(condition: Any, iterable: Any) -> Any:\n    if isinstance(iterable, (list, tuple)) and len(iterable):\n        condition(iterable[0])\n    return condition\n\n\ndef exhaust("))
B('cache-mapping-behind-a-view', ['C14'], ['C14-R4'],
  (A, "    _cache: _CacheMap = cache if cache is not None else {}\n", "    _cache: _CacheMap = _View(cache if cache is not None else {})\n"),
  (A, "E = TypeVar('E', bound=BaseException)\n", "class _View(dict):  # type: ignore\n    def __init__(self, inner: Any) -> None:\n        super().__init__()\n        self.inner = inner\n\n\nE = TypeVar('E', bound=BaseException)\n"))

# --- guarded extension hooks (benign wave 11): the helper that calls them is expanded with the hook it was handed -------
_HOOK_HELPER = ("    def _call_hook(self, hook: Any, *args: Any, default: Any = None) -> Any:\n        try:\n            return hook(*args)\n"
                "        except Exception:  # noqa\n            logger.exception('Ignoring error in hook %r', hook)\n            return default\n\n")
T('buf-guarded-noop-hooks', ['C03', 'C07', 'C08'],
  (A, "            if inputs:  # Could be empty if all empty iterators\n                await self.func(inputs)\n",
      "            if inputs:  # Could be empty if all empty iterators\n                self._call_hook(self._on_batch_start, len(inputs))\n                await self.func(inputs)\n"),
  (A, "    def _schedule_with_timeout(self, coro: Awaitable[X]) -> 'aio.Task[X]':\n",
      _HOOK_HELPER + "    def _on_batch_start(self, size: int) -> None:\n        \"\"\"Called right before the function is awaited.\"\"\"\n\n"
      "    def _schedule_with_timeout(self, coro: Awaitable[X]) -> 'aio.Task[X]':\n"))
B('buf-hook-marks-the-run-done', ['C03'], ['C03-S3'],
  (A, "            if inputs:  # Could be empty if all empty iterators\n                await self.func(inputs)\n",
      "            if inputs:  # Could be empty if all empty iterators\n                self._call_hook(self._on_batch_start, len(inputs))\n                await self.func(inputs)\n"),
  (A, "    def _schedule_with_timeout(self, coro: Awaitable[X]) -> 'aio.Task[X]':\n",
      _HOOK_HELPER + "    def _on_batch_start(self, size: int) -> None:\n        self.event.set()\n\n"
      "    def _schedule_with_timeout(self, coro: Awaitable[X]) -> 'aio.Task[X]':\n"))
T('bridge-worker-guarded-hook', ['C17'],
  (A, "    def _loop_thread() -> T:\n        with _get_loop_lock(loop):\n            aio.set_event_loop(loop)\n",
      "    def _loop_thread() -> T:\n        with _get_loop_lock(loop):\n            _run_hook(_on_loop_thread_start, loop)\n            aio.set_event_loop(loop)\n"),
  (A, "async def run_aw_threadsafe(", "def _run_hook(hook: Any, *args: Any) -> None:\n    try:\n        hook(*args)\n    except Exception:\n        logger.exception('Ignoring error raised by hook %r', hook)\n\n\n"
      "def _on_loop_thread_start(loop: Loop) -> None:\n    \"\"\"Does nothing by default.\"\"\"\n\n\nasync def run_aw_threadsafe("))
B('bridge-worker-swallows-the-failure', ['C17'], ['C17-R4'],
  (A, "            aio.set_event_loop(loop)\n            return loop.run_until_complete(aw)\n",
      "            aio.set_event_loop(loop)\n            try:\n                return loop.run_until_complete(aw)\n            except Exception:\n                logger.exception('awaitable failed')\n                return None  # type: ignore\n"))

# --- seeded wave 12 (refactorings gone wrong) -------------------------------------------------------------------
def _cm_lock_edits(safe: bool):
    gen = ("    @contextmanager\n    def _in_flight() -> Any:\n        event_making_lock.acquire()\n"
           + ("        try:\n            yield events\n        finally:\n            event_making_lock.release()\n\n" if safe else
              "        yield events\n        event_making_lock.release()\n\n"))
    return [
        (A, "from functools import partial, wraps\n", "from functools import partial, wraps\nfrom contextlib import contextmanager\n"),
        (A, "    @wraps(_func)\n    async def _wrapper(*args: Any, **kwargs: Any) -> Any:\n", gen + "    @wraps(_func)\n    async def _wrapper(*args: Any, **kwargs: Any) -> Any:\n"),
        (A, "            with event_making_lock:\n                try:  # verify nothing cached while waiting for lock\n",
            "            with _in_flight() as markers:\n                try:  # verify nothing cached while waiting for lock\n"),
        (A, "                    caching_loop, event = events[key]\n", "                    caching_loop, event = markers[key]\n"),
        (A, "                    events[key] = caching_loop, event\n", "                    markers[key] = caching_loop, event\n"),
        (A, "                    with event_making_lock:\n                        # Wake up any waiting tasks\n",
            "                    with _in_flight() as markers:\n                        # Wake up any waiting tasks\n"),
        (A, "                        if events.get(key, (None, None))[1] is event:\n                            del events[key]\n",
            "                        if markers.get(key, (None, None))[1] is event:\n                            del markers[key]\n"),
    ]
T('cache-lock-behind-a-safe-context-manager', ['C01', 'C05', 'C06', 'C14'], *_cm_lock_edits(True))
B('cache-lock-behind-a-leaky-context-manager', ['C05'], ['C05-R9'], *_cm_lock_edits(False))
B('cache-store-outside-the-release', ['C01'], ['C01-R6'],
  (A, "                except Exception:\n                    raise  # Bubble any errors without caching\n                else:\n                    _cache[key] = result  # Cache for other tasks\n                finally:\n",
      "                finally:\n"),
  (A, "                            del events[key]\n                return result\n", "                            del events[key]\n                _cache[key] = result\n                return result\n"))
B('lock-counter-read-after-the-unlock', ['C12', 'C02'], ['C12-R10', 'C02-R13'],
  (F, "        try:\n            for _ in range(levels):\n                self._thread_lock.release()\n        except RuntimeError:  # not reentrant and already unlocked\n            pass\n",
      "        try:\n            for _ in range(levels):\n                self._thread_lock.release()\n        except RuntimeError:  # not reentrant and already unlocked\n            pass\n        if self._lock_counter:\n            _logger.debug('still %s level(s) held', self._lock_counter)\n"))
B('cache-computer-returns-through-the-cache', ['C05'], ['C05-R10'],
  (A, "                            del events[key]\n                return result\n", "                            del events[key]\n                continue  # served from the cache like everybody else\n"))
T('options-rebound-by-a-shared-helper', ['C15'],
  (A, "        return partial(buffer_until_timeout, timeout=timeout)  # type: ignore\n", "        return _with_options(buffer_until_timeout, timeout=timeout)  # type: ignore\n"),
  (A, "_BufferFunc = Callable[[Set[T]], Awaitable[None]]\n", "def _with_options(deco: Any, **options: Any) -> Any:\n    \"\"\"Re-bind the decorator for its @deco(option=...) form.\"\"\"\n    return partial(deco, **options)\n\n\n_BufferFunc = Callable[[Set[T]], Awaitable[None]]\n"))
B('options-filtered-by-a-shared-helper', ['C15'], ['C15-R1'],
  (A, "        return partial(buffer_until_timeout, timeout=timeout)  # type: ignore\n", "        return _with_options(buffer_until_timeout, timeout=timeout)  # type: ignore\n"),
  (A, "_BufferFunc = Callable[[Set[T]], Awaitable[None]]\n", "def _with_options(deco: Any, **options: Any) -> Any:\n    return partial(deco, **{k: v for k, v in options.items() if v})\n\n\n_BufferFunc = Callable[[Set[T]], Awaitable[None]]\n"))
B('pair-split-never-unpacked', ['C19'], ['C19-R2'],
  (P, "                k, v = pair.split(sep, 1)\n", "                pair = pair.split(sep, 1)\n"),
  (P, "            return parse_tuple(k, v)\n        return parse_tuple(*pair)\n", "        return parse_tuple(*pair)\n"))
B('buf-loader-returns-a-list-merged-outside-the-guard', ['C03', 'C07'], ['C03-L1', 'C07-L1'],
  (A, "                async for i in iterable:\n                    inputs.add(i)\n            except BaseException:  # noqa\n                logger.exception(\"Failed to get args from: %r\", iterable)\n",
      "                inputs.update(await _exhaust(iterable))\n            except RuntimeError:  # noqa\n                logger.exception(\"Failed to get args from: %r\", iterable)\n"),
  (A, "_BufferFunc = Callable[[Set[T]], Awaitable[None]]\n", "async def _exhaust(iterable: Any) -> Any:\n    out = []\n    try:\n        async for i in iterable:\n            out.append(i)\n    except BaseException:  # noqa\n        logger.exception('Failed to get args from: %r', iterable)\n    return out\n\n\n_BufferFunc = Callable[[Set[T]], Awaitable[None]]\n"))
B('exhaust-remembers-through-a-default', ['C18'], ['C18-U1'],
  (I, "def exhaust(iterable: Iterable[Any]) -> None:\n", "def exhaust(iterable: Iterable[Any], _seen: list = []) -> None:  # type: ignore\n"),
  (I, "    deque(iterable, maxlen=0)\n", "    _seen.append(id(iterable))\n    deque(iterable, maxlen=0)\n"))
T('exhaust-reads-a-default-table', ['C18'],
  (I, "def exhaust(iterable: Iterable[Any]) -> None:\n", "def exhaust(iterable: Iterable[Any], _kinds: dict = {'lazy': 0}) -> None:  # type: ignore\n"),
  (I, "    deque(iterable, maxlen=0)\n", "    assert 'lazy' in _kinds\n    deque(iterable, maxlen=0)\n"))

# --- benign wave 12 (deep restructurings done right) and their broken twins ---------------------------------------
def _join_or_claim_edits(check_live: bool):
    live = ("        if caching_loop.is_closed() or not caching_loop.is_running():\n            raise KeyError  # Invalidate loop\n" if check_live else
            "        if caching_loop.is_closed():\n            raise KeyError  # Invalidate loop\n")
    helper = ("def _join_or_claim(events: Any, key: Any) -> Any:\n    try:\n        caching_loop, event = events[key]\n" + live +
              "    except KeyError:\n        caching_loop = aio.get_running_loop()\n        event = aio.Event()\n        events[key] = caching_loop, event\n"
              "        return caching_loop, event, True\n    return caching_loop, event, False\n\n\n")
    return [
        (A, "@overload\ndef threadsafe_async_cache(\n    func: None = None,\n", helper + "@overload\ndef threadsafe_async_cache(\n    func: None = None,\n"),
        (A, "                try:\n                    # Try to get the loop + event of the loop currently\n                    # caching the value\n                    caching_loop, event = events[key]\n"
            "                    if (caching_loop.is_closed()\n                            or not caching_loop.is_running()):\n                        raise KeyError  # Invalidate loop\n"
            "                except KeyError:\n                    # No existing event -> this task is going to cache\n                    # the value and provide an event for others to wait\n"
            "                    caching_loop = aio.get_running_loop()\n                    event = aio.Event()\n                    events[key] = caching_loop, event\n                    do_caching = True\n"
            "                else:\n                    do_caching = False  # Need to wait for other loop\n",
            "                caching_loop, event, do_caching = _join_or_claim(events, key)\n"),
    ]
T('cache-claim-in-a-module-helper-returning-a-triple', ['C01', 'C05', 'C06', 'C14'], *_join_or_claim_edits(True))
B('cache-claim-helper-forgets-stopped-loops', ['C05'], ['C05-R7'], *_join_or_claim_edits(False))
T('batcher-sentinel-lookups', ['C04', 'C09', 'C11', 'C15'],
  (A, "_DONE = object()\n", "_DONE = object()\n_MISSING: Any = object()\n"),
  (A, "        try:\n            fut = self._retention_cache[key]\n        except KeyError:\n            pass\n        else:\n            return await fut\n",
      "        cached: Any = self._retention_cache.get(key, _MISSING)\n        if cached is not _MISSING:\n            fut = cached\n            return await fut\n"),
  (A, "        try:\n            batcher = batchers[loop]\n        except KeyError:\n", "        batcher: Any = batchers.get(loop, _MISSING)\n        if batcher is _MISSING:\n"))
B('batcher-sentinel-lookup-with-the-wrong-default', ['C11'], ['C11-R1'],
  (A, "_DONE = object()\n", "_DONE = object()\n_MISSING: Any = object()\n"),
  (A, "        try:\n            fut = self._retention_cache[key]\n        except KeyError:\n            pass\n        else:\n            return await fut\n",
      "        cached: Any = self._retention_cache.get(key, None)\n        if cached is not _MISSING:\n            fut = cached\n            return await fut\n"))
T('cache-ownership-flag-from-a-try', ['C01', 'C05', 'C06'],
  (A, "                        if events.get(key, (None, None))[1] is event:\n                            del events[key]\n",
      "                        try:\n                            still_ours = events[key][1] is event\n                        except KeyError:\n                            still_ours = False\n                        if still_ours:\n                            events.pop(key)\n"))
B('cache-ownership-flag-defaults-to-true', ['C01', 'C06'], ['C01-R7', 'C06-R3'],
  (A, "                        if events.get(key, (None, None))[1] is event:\n                            del events[key]\n",
      "                        try:\n                            still_ours = events[key][1] is event\n                        except KeyError:\n                            still_ours = True\n                        if still_ours:\n                            events.pop(key)\n"))

def _wait_record_edits(block_expr: str):
    rec = ("class _Wait(NamedTuple):\n    blocking: bool\n    timeout: float\n    started: float\n\n    def block_in_call(self) -> Any:\n"
           f"        return {block_expr}\n\n    def expired(self) -> bool:\n        return 0 <= self.timeout < time.time() - self.started\n\n\n")
    return [
        (F, "from typing import Union, Optional, TypeVar, ClassVar, Any\n", "from typing import Union, Optional, TypeVar, ClassVar, NamedTuple, Any\n"),
        (F, "class BaseFileLock(abc.ABC):\n", rec + "class BaseFileLock(abc.ABC):\n"),
        (F, "        start_time = time.time()\n", "        wait = _Wait(blocking, timeout, started=time.time())\n"),
        (F, "                self._acquire(block=blocking and timeout < 0)\n", "                self._acquire(block=wait.block_in_call())\n"),
        (F, "                elif not blocking:\n", "                elif not wait.blocking:\n"),
        (F, "                elif 0 <= timeout < time.time() - start_time:\n", "                elif wait.expired():\n"),
    ]
T('lock-wait-state-in-a-record-with-methods', ['C12', 'C02'], *_wait_record_edits('self.blocking and self.timeout < 0'))
B('lock-wait-record-blocks-in-the-call-whenever-blocking', ['C12'], ['C12-R6'], *_wait_record_edits('self.blocking'))

def _ack_cm_edits(safe: bool):
    cm = ("    @contextmanager\n    def _acknowledged(self) -> Any:\n" +
          ("        try:\n            yield\n        except BaseException:  # noqa\n            raise\n        else:\n            self.q.task_done()\n\n" if safe else
           "        try:\n            yield\n        finally:\n            self.q.task_done()\n\n"))
    return [
        (A, "from itertools import islice\n", "from contextlib import contextmanager\nfrom itertools import islice\n"),
        (A, "            try:\n                await _load_inputs(await self._getting)\n            except (aio.TimeoutError, aio.CancelledError):\n                await self._run_func(inputs)\n            else:\n                self.q.task_done()\n",
            "            try:\n                with self._acknowledged():\n                    await _load_inputs(await self._getting)\n            except (aio.TimeoutError, aio.CancelledError):\n                await self._run_func(inputs)\n"),
        (A, "    async def _run_func(self, inputs: Set[T]) -> None:\n", cm + "    async def _run_func(self, inputs: Set[T]) -> None:\n"),
    ]
T('buf-acknowledge-in-a-context-manager', ['C03', 'C07', 'C08'], *_ack_cm_edits(True))
B('buf-acknowledge-context-manager-acks-timeouts-too', ['C07'], ['C07-W3'], *_ack_cm_edits(False))

# --- seeded wave 13 (clean-ups of error handling and concurrency plumbing) -------------------------------------------
B('lock-refused-timeout-gives-a-level-back', ['C12', 'C02'], ['C12-R1', 'C02-R1'],
  (F, "        if not self._thread_lock.acquire(blocking, timeout):\n",
      "        try:\n            got = self._thread_lock.acquire(blocking, timeout)\n        except ValueError:\n            self._thread_lock.release()\n            raise\n        if not got:\n"))
T('lock-refused-timeout-is-logged', ['C12', 'C02'],
  (F, "        if not self._thread_lock.acquire(blocking, timeout):\n",
      "        try:\n            got = self._thread_lock.acquire(blocking, timeout)\n        except ValueError:\n            _logger.debug('bad timeout %r', timeout)\n            raise\n        if not got:\n"))
B('bat-dispatcher-supervises-its-batches', ['C04', 'C09'], ['C04-B8', 'C09-R5'],
  (A, "        while True:\n            tasks = await self._get_next_batch()\n            # Don't wait for the current batch to finish\n            self._daemon_task(  # noqa\n                self._process_batch(tasks),\n                name=\"async-bg-batcher-process-batch\",\n            )\n",
      "        async with aio.TaskGroup() as batches:\n            while True:\n                tasks = await self._get_next_batch()\n                batches.create_task(\n                    self._process_batch(tasks),\n                    name=\"async-bg-batcher-process-batch\",\n                )\n"))
B('gather-excs-reraises-cancelled-children', ['C20'], ['C20-R3'],
  (A, "    for res in await aio.gather(*aws, return_exceptions=True):\n        if isinstance(res, only):\n            yield res\n",
      "    for res in await aio.gather(*aws, return_exceptions=True):\n        if isinstance(res, aio.CancelledError):\n            raise res\n        if isinstance(res, only):\n            yield res\n"))
B('gather-excs-default-filter-narrowed', ['C20'], ['C20-R3'],
  (A, "    only: Type[E] = BaseException,  # type: ignore # MyPy bug\n", "    only: Type[E] = Exception,  # type: ignore # MyPy bug\n"))
B('parse-escalates-warnings', ['C19'], ['C19-R4'],
  (P, "            try:\n                return parse(x)\n", "            try:\n                import warnings\n                with warnings.catch_warnings():\n                    warnings.simplefilter('error', SyntaxWarning)\n                    return parse(x)\n"))
B('async-bridge-pool-joined-before-the-loop', ['C16'], ['C16-TA6'],
  (A, "        future = loop.run_in_executor(pool, _queue_elements)\n        while (i := await q.get()) is not _DONE:\n            yield i  # type: ignore\n        await future  # Bubble any errors\n",
      "        future = loop.run_in_executor(pool, _queue_elements)\n    while (i := await q.get()) is not _DONE:\n        yield i  # type: ignore\n    await future  # Bubble any errors\n"))
B('sync-bridge-aiter-outside-the-try', ['C16'], ['C16-TA1'],
  (A, "    async def _queue_elements() -> None:\n        try:\n            async for x in iterable:\n", "    async def _queue_elements() -> None:\n        elements = iterable.__aiter__()\n        try:\n            async for x in elements:\n"))
B('loop-stopper-gives-up-after-a-while', ['C17'], ['C17-R6'],
  (A, "        future.result()  # Wait for loop to exit and reveal errors\n", "        try:\n            future.result(5)\n        except Exception:\n            logger.warning('loop %r did not stop in time', loop)\n"))
B('split-pulls-under-a-lock', ['C18'], ['C18-R8'],
  (I, "from itertools import tee, compress\n", "from itertools import tee, compress\nfrom threading import RLock\n"),
  (I, "def exhaust(", "def _synchronized(it: Any, lock: Any) -> Any:\n    with lock:\n        for value in it:\n            yield value\n\n\n_PULLS = RLock()\n\n\ndef exhaust("))
B('bat-batch-of-one-runs-in-the-caller', ['C09', 'C04'], ['C09-R5', 'C04-B8'],
  (A, "        await self._queue.put((key, arg, fut))\n", "        if self.max_batch_size > 1:\n            self._queue.put_nowait((key, arg, fut))\n        else:\n            await self._process_batch([(key, arg, fut)])\n"))

# --- from the mutant re-check after round 3: liveness halves of safety rules, and a loader bug ------------------------------
B('parse-guard-never-true', ['C19'], ['C19-R4'],
  (P, "        if isinstance(x, str):\n            try:\n                return parse(x)\n", "        if False:\n            try:\n                return parse(x)\n"))
B('lock-slow-path-never-succeeds', ['C02', 'C12'], ['C02-R1', 'C12-R1'],
  (F, "                if self.is_locked:\n                    _logger.info('Lock %s acquired on %s', lid, fn)\n                    break\n",
      "                if False:\n                    _logger.info('Lock %s acquired on %s', lid, fn)\n                    break\n"))
B('lock-nested-acquire-locks-again', ['C12'], ['C12-R1'],
  (F, "        self._lock_counter += 1  # Keep lock counter synced with RLock\n\n        if self.is_locked:\n            return True\n",
      "        self._lock_counter += 1  # Keep lock counter synced with RLock\n\n        if False:\n            return True\n"))
B('loop-thread-worker-does-not-run-the-loop', ['C17'], ['C17-R5'],
  (A, "            aio.set_event_loop(loop)\n            loop.run_forever()\n", "            aio.set_event_loop(loop)\n            pass\n"))
B('buf-runner-handler-only-reraises', ['C03'], ['C03-S3'],
  (A, "        except BaseException as e:  # noqa\n            logging.exception(\"Failed to run %s, retrying\", self.func)\n", "        except BaseException as e:  # noqa\n            raise\n"))

# --- markers as records in the in-flight table (benign R56-4) and two breaks through the record's methods -----------------
def _marker_record_edits(live_expr: str, ours_expr: str):
    rec = ("class _Marker(NamedTuple):\n    loop: Any\n    event: Any\n\n    @classmethod\n    def claim(cls) -> '_Marker':\n        return cls(aio.get_running_loop(), aio.Event())\n\n"
           f"    def is_live(self) -> bool:\n        return {live_expr}\n\n    def is_ours(self, event: Any) -> bool:\n        return {ours_expr}\n\n\n")
    return [
        (A, "    Set, Tuple, Type, TypeVar, Union,\n", "    NamedTuple, Set, Tuple, Type, TypeVar, Union,\n"),
        (A, "@overload\ndef threadsafe_async_cache(\n    func: None = None,\n", rec + "@overload\ndef threadsafe_async_cache(\n    func: None = None,\n"),
        (A, "                    caching_loop, event = events[key]\n                    if (caching_loop.is_closed()\n                            or not caching_loop.is_running()):\n                        raise KeyError  # Invalidate loop\n",
            "                    marker = events[key]\n                    if not marker.is_live():\n                        raise KeyError  # Invalidate loop\n"),
        (A, "                    caching_loop = aio.get_running_loop()\n                    event = aio.Event()\n                    events[key] = caching_loop, event\n",
            "                    marker = _Marker.claim()\n                    events[key] = marker\n"),
        (A, "                        event.set()\n", "                        marker.event.set()\n"),
        (A, "                        if events.get(key, (None, None))[1] is event:\n                            del events[key]\n",
            "                        holder = events.get(key)\n                        if holder is not None and holder.is_ours(marker.event):\n                            del events[key]\n"),
        (A, "            wait_event: Awaitable[bool] = event.wait()\n            if running_loop is not caching_loop:\n                try:\n                    wait_fut = run_coro_ts(wait_event, caching_loop)\n",
            "            wait_event: Awaitable[bool] = marker.event.wait()\n            if running_loop is not marker.loop:\n                try:\n                    wait_fut = run_coro_ts(wait_event, marker.loop)\n"),
    ]
T('cache-markers-are-records-with-methods', ['C01', 'C05', 'C06', 'C14'], *_marker_record_edits('not self.loop.is_closed() and self.loop.is_running()', 'self.event is event'))
B('cache-marker-record-forgets-stopped-loops', ['C05'], ['C05-R7'], *_marker_record_edits('not self.loop.is_closed()', 'self.event is event'))
B('cache-marker-record-compares-the-loop', ['C01', 'C06'], ['C01-R7', 'C06-R3'], *_marker_record_edits('not self.loop.is_closed() and self.loop.is_running()', 'self.loop is event'))
