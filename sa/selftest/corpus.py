"""Seeded breaks and benign twins (DESIGN 6).  Every entry is a list of
(file, old, new) textual edits with a unique anchor on today's tree; a missing
anchor makes the variant 'skipped' (never a verdict about /repo)."""
from __future__ import annotations

from typing import Dict, List

A = 'aiuti/asyncio.py'
F = 'aiuti/filelock.py'
I = 'aiuti/itertools.py'
P = 'aiuti/parsing.py'

_M: List[dict] = []


def B(mid: str, props, rules, *edits) -> None:
    _M.append({'id': mid, 'kind': 'break', 'props': list(props), 'rules': list(rules), 'edits': list(edits)})


def T(mid: str, props, *edits) -> None:
    _M.append({'id': mid, 'kind': 'twin', 'props': list(props), 'rules': [], 'edits': list(edits)})


def all_mutants() -> List[dict]:
    import copy
    return copy.deepcopy(_M)


# ---------------------------------------------------------------------------
# threadsafe_async_cache
# ---------------------------------------------------------------------------
GUARDED_DEL = """                        if events.get(key, (None, None))[1] is event:
                            del events[key]
"""

B('cache-unguarded-del', ['C01', 'C06'], ['C01-R7', 'C06-R3'],
  (A, GUARDED_DEL, "                        del events[key]\n"))
B('cache-drop-locked-reprobe', ['C01'], ['C01-R2'],
  (A, """                try:  # verify nothing cached while waiting for lock
                    return _cache[key]
                except KeyError:
                    pass
""", ""))
B('cache-unmark-outside-lock', ['C01'], ['C01-R1'],
  (A, """                    with event_making_lock:
                        # Wake up any waiting tasks
                        event.set()
""", """                    if True:
                        # Wake up any waiting tasks
                        event.set()
"""))
B('cache-publish-after-unmark', ['C01'], ['C01-R6'],
  (A, """                else:
                    _cache[key] = result  # Cache for other tasks
                finally:""", """                finally:"""),
  (A, """                return result

            # Need to wait""", """                _cache[key] = result
                return result

            # Need to wait"""))
B('cache-takeover-running', ['C01'], ['C01-R4'],
  (A, "or not caching_loop.is_running()):", "or caching_loop.is_running()):"))
B('cache-waiter-calls-func', ['C01'], ['C01-R5'],
  (A, """            except aio.TimeoutError:  # Possible original task lost?
                pass  # Need to loop around and check""",
   """            except aio.TimeoutError:  # Possible original task lost?
                return await _func(*args, **kwargs)"""))
B('cache-return-none', ['C01'], ['C01-R8'],
  (A, "                return result\n\n            # Need to wait", "                return None\n\n            # Need to wait"))
B('cache-cleanup-only-on-success', ['C05'], ['C05-R1'],
  (A, """                else:
                    _cache[key] = result  # Cache for other tasks
                finally:
                    with event_making_lock:""", """                else:
                    _cache[key] = result  # Cache for other tasks
                    with event_making_lock:"""))
B('cache-drop-event-set', ['C05'], ['C05-R1'],
  (A, "                        event.set()\n", "                        pass\n"))
B('cache-wait-direct-across-loops', ['C05'], ['C05-R3'],
  (A, "            if running_loop is not caching_loop:\n", "            if running_loop is caching_loop:\n"))
B('cache-bridge-failure-raises', ['C05'], ['C05-R4'],
  (A, "                    continue  # loop around and try again", "                    raise"))
B('cache-unbounded-wait', ['C05'], ['C05-R5'],
  (A, "aio.wait_for(wait_event, 60)", "aio.wait_for(wait_event, None)"))
B('cache-wait-600', ['C05'], ['C05-R5'],
  (A, "aio.wait_for(wait_event, 60)", "aio.wait_for(wait_event, 600)"))
B('cache-guard-without-closed', ['C05'], ['C05-R7'],
  (A, """                    if (caching_loop.is_closed()
                            or not caching_loop.is_running()):""", """                    if (not caching_loop.is_closed()
                            and not caching_loop.is_running()):"""))
B('cache-guard-and', ['C05'], ['C05-R7'],
  (A, """                    if (caching_loop.is_closed()
                            or not caching_loop.is_running()):""", """                    if (caching_loop.is_closed()
                            and not caching_loop.is_running()):"""))
B('cache-timeout-returns', ['C05', 'C01'], ['C05-R5', 'C05-R6', 'C01-R8'],
  (A, """            except aio.TimeoutError:  # Possible original task lost?
                pass  # Need to loop around and check""", """            except aio.TimeoutError:  # Possible original task lost?
                return None"""))
B('cache-caches-exception', ['C06'], ['C06-R1'],
  (A, """                except Exception:
                    raise  # Bubble any errors without caching""", """                except Exception as exc:
                    _cache[key] = exc
                    raise  # Bubble any errors without caching"""))
B('cache-swallows-exception', ['C06'], ['C06-R2'],
  (A, """                except Exception:
                    raise  # Bubble any errors without caching""", """                except Exception:
                    continue"""))
B('cache-no-shield', ['C06'], ['C06-R5'],
  (A, "                await aio.shield(waiter)", "                await waiter"))
B('cache-clears-event', ['C06'], ['C06-R5', 'C06-R2'],
  (A, """                if not waiter.done():
                    waiter.cancel()""", """                if not waiter.done():
                    event.clear()
                    waiter.cancel()"""))
B('cache-key-args-only', ['C14'], ['C14-R1'],
  (A, "key = args, frozenset(kwargs.items())", "key = (args,)"))
B('cache-key-kw-ordered', ['C14'], ['C14-R1'],
  (A, "key = args, frozenset(kwargs.items())", "key = args, tuple(kwargs.items())"))
B('cache-key-kw-names-only', ['C14'], ['C14-R1'],
  (A, "key = args, frozenset(kwargs.items())", "key = args, frozenset(kwargs)"))
B('cache-key-hash', ['C14'], ['C14-R1'],
  (A, "key = args, frozenset(kwargs.items())", "key = hash((args, frozenset(kwargs.items())))"))
B('cache-key-first-arg', ['C14'], ['C14-R1'],
  (A, "key = args, frozenset(kwargs.items())", "key = args[:1], frozenset(kwargs.items())"))
B('cache-truthiness-select', ['C14'], ['C14-R4'],
  (A, "_cache: _CacheMap = cache if cache is not None else {}", "_cache: _CacheMap = cache or {}"))
B('cache-ignores-mapping', ['C14'], ['C14-R4'],
  (A, "_cache: _CacheMap = cache if cache is not None else {}", "_cache: _CacheMap = {}\n    cache = cache"))
B('cache-call-drops-kwargs', ['C14'], ['C14-R3'],
  (A, "result = await _func(*args, **kwargs)", "result = await _func(*args)"))
B('cache-second-store', ['C14'], ['C14-R4'],
  (A, "                    _cache[key] = result  # Cache for other tasks",
   "                    _cache[key] = result  # Cache for other tasks\n                    _wrapper.__dict__[key] = result"))

T('cache-rename-roles', ['C01', 'C05', 'C06', 'C14'],
  (A, "events", "inflight", 'all'), (A, "event_making_lock", "lk", 'all'), (A, "_cache", "_store", 'all'))
T('cache-acquire-release-form', ['C01', 'C05', 'C06'],
  (A, """                    with event_making_lock:
                        # Wake up any waiting tasks
                        event.set()
                        # Allow garbage collection and/or another loop
                        # to take over caching if this failed. Another
                        # loop may have taken over in the meantime, only
                        # remove the marker if it is still this task's.
                        if events.get(key, (None, None))[1] is event:
                            del events[key]
""", """                    event_making_lock.acquire()
                    try:
                        event.set()
                        if events.get(key, (None, None))[1] is event:
                            del events[key]
                    finally:
                        event_making_lock.release()
"""))
T('cache-pop-for-del', ['C01', 'C05', 'C06', 'C14'],
  (A, GUARDED_DEL, """                        if events.get(key, (None, None))[1] is event:
                            events.pop(key)
"""))
T('cache-ownership-by-tuple-eq', ['C01', 'C05', 'C06'],
  (A, GUARDED_DEL, """                        if events.get(key) == (caching_loop, event):
                            del events[key]
"""))
T('cache-ownership-negated', ['C01', 'C05', 'C06'],
  (A, GUARDED_DEL, """                        if events.get(key, (None, None))[1] is not event:
                            pass
                        else:
                            del events[key]
"""))
T('cache-key-sorted-tuple', ['C14'],
  (A, "key = args, frozenset(kwargs.items())", "key = (args, tuple(sorted(kwargs.items())))"))
T('cache-select-flipped', ['C14'],
  (A, "_cache: _CacheMap = cache if cache is not None else {}", "_cache: _CacheMap = {} if cache is None else cache"))
T('cache-set-after-del', ['C01', 'C05', 'C06'],
  (A, """                        event.set()
                        # Allow garbage collection and/or another loop
                        # to take over caching if this failed. Another
                        # loop may have taken over in the meantime, only
                        # remove the marker if it is still this task's.
                        if events.get(key, (None, None))[1] is event:
                            del events[key]
""", """                        if events.get(key, (None, None))[1] is event:
                            del events[key]
                        event.set()
"""))
T('cache-timeout-30', ['C05'],
  (A, "aio.wait_for(wait_event, 60)", "aio.wait_for(wait_event, 30.0)"))
T('cache-guard-demorgan', ['C01', 'C05'],
  (A, """                    if (caching_loop.is_closed()
                            or not caching_loop.is_running()):""",
   """                    if not (caching_loop.is_running()
                            and not caching_loop.is_closed()):"""))


# ---------------------------------------------------------------------------
# FileLock
# ---------------------------------------------------------------------------
ENTER_FIXED = """        if not self.acquire():
            raise TimeoutError("Failed to acquire file lock:", self._lock_file)
        return self
"""
B('fl-enter-ignores-result', ['C02'], ['C02-R7'],
  (F, ENTER_FIXED, "        self.acquire()\n        return self\n"))
B('fl-force-release-once', ['C12'], ['C12-R1'],
  (F, """            else:
                _logger.info('Lock %s released on %s', lid, fn)
            # When forced, every nested level is given up at once
            levels += self._lock_counter
            self._lock_counter = 0
""", """            else:
                self._lock_counter = 0
                _logger.info('Lock %s released on %s', lid, fn)
"""))
B('fl-lock-shared', ['C02', 'C13'], ['C02-R5', 'C13-R3'],
  (F, "fcntl.flock(fd,  fcntl.LOCK_EX | (0 if block else fcntl.LOCK_NB))", "fcntl.flock(fd,  fcntl.LOCK_SH | (0 if block else fcntl.LOCK_NB))"))
B('fl-lockf', ['C02', 'C13'], ['C02-R5', 'C13-R3'],
  (F, "fcntl.flock(fd,  fcntl.LOCK_EX | (0 if block else fcntl.LOCK_NB))", "fcntl.lockf(fd,  fcntl.LOCK_EX | (0 if block else fcntl.LOCK_NB))"))
B('fl-nb-inverted', ['C02'], ['C02-R5'],
  (F, "(0 if block else fcntl.LOCK_NB)", "(fcntl.LOCK_NB if block else 0)"))
B('fl-win-modes-swapped', ['C02'], ['C02-R5'],
  (F, "msvcrt.LK_LOCK if block else msvcrt.LK_NBLCK", "msvcrt.LK_NBLCK if block else msvcrt.LK_LOCK"))
B('fl-cached-descriptor', ['C02'], ['C02-R4'],
  (F, "            fd = os.open(self._lock_file, self._FD_OPEN_MODE)", "            fd = getattr(self, '_fd_cache', None) or os.open(self._lock_file, self._FD_OPEN_MODE)\n            self._fd_cache = fd"))
B('fl-true-on-timeout', ['C02', 'C12'], ['C02-R1', 'C02-R2', 'C12-R1'],
  (F, """                    _logger.debug('Timeout on acquiring lock %s on %s', lid, fn)
                    _cleanup_thread_lock()
                    return False""", """                    _logger.debug('Timeout on acquiring lock %s on %s', lid, fn)
                    _cleanup_thread_lock()
                    return True"""))
B('fl-no-cleanup-nonblocking', ['C12'], ['C12-R1'],
  (F, """                    _logger.debug('Failed to acquire lock %s on %s', lid, fn)
                    _cleanup_thread_lock()
                    return False""", """                    _logger.debug('Failed to acquire lock %s on %s', lid, fn)
                    return False"""))
B('fl-cleanup-keeps-counter', ['C12'], ['C12-R1'],
  (F, """            self._decrement_lock_counter()
            self._thread_lock.release()""", """            self._thread_lock.release()"""))
B('fl-fd-set-before-lock', ['C02'], ['C02-R3'],
  (F, """        try:
            self._lock(fd, block)
        except (IOError, OSError):
            os.close(fd)
        else:
            self._lock_file_fd = fd""", """        self._lock_file_fd = fd
        try:
            self._lock(fd, block)
        except (IOError, OSError):
            os.close(fd)"""))
B('fl-tl-released-before-os', ['C02', 'C12'], ['C02-R6', 'C12-R1'],
  (F, """            try:
                self._release()
            except:  # noqa""", """            try:
                self._thread_lock.release()
                self._release()
            except:  # noqa"""))
B('fl-remove-on-release', ['C13'], ['C13-R1', 'C13-R4'],
  (F, """        finally:
            os.close(fd)

    @abc.abstractmethod""", """        finally:
            os.close(fd)
            os.remove(self._lock_file)

    @abc.abstractmethod"""))
B('fl-o-excl', ['C13'], ['C13-R2'],
  (F, "os.O_RDWR | os.O_CREAT | os.O_TRUNC", "os.O_RDWR | os.O_CREAT | os.O_EXCL"))
B('fl-pid-file', ['C13'], ['C13-R1'],
  (F, "            self._lock_file_fd = fd\n", "            self._lock_file_fd = fd\n            os.write(fd, str(os.getpid()).encode())\n"))
B('fl-exists-check', ['C13'], ['C13-R1'],
  (F, "        try:\n            fd = os.open(self._lock_file, self._FD_OPEN_MODE)", "        if os.path.exists(str(self._lock_file) + '.held'):\n            return\n        try:\n            fd = os.open(self._lock_file, self._FD_OPEN_MODE)"))
B('fl-leak-fd-on-lock-failure', ['C12'], ['C12-R5'],
  (F, "        except (IOError, OSError):\n            os.close(fd)", "        except (IOError, OSError):\n            pass"))
B('fl-close-not-in-finally', ['C12'], ['C12-R5'],
  (F, """        try:
            self._unlock(fd)
        finally:
            os.close(fd)""", """        self._unlock(fd)
        os.close(fd)"""))
B('fl-inner-release-drops-os-lock', ['C12'], ['C12-R2', 'C12-R1'],
  (F, "        if self._lock_counter == 0 or force:", "        if self._lock_counter >= 0 or force:"))
B('fl-nonblocking-sleeps', ['C12'], ['C12-R7'],
  (F, """                elif not blocking:
                    _logger.debug('Failed to acquire lock %s on %s', lid, fn)
                    _cleanup_thread_lock()
                    return False
""", ""))
B('fl-clock-before-stage1', ['C12'], ['C12-R8'],
  (F, "        lid = id(self)\n        fn = self._lock_file\n\n        if not self._thread_lock", "        lid = id(self)\n        fn = self._lock_file\n        start_time = time.time()\n\n        if not self._thread_lock"),
  (F, "        start_time = time.time()\n\n        def _cleanup", "        def _cleanup"))
B('fl-rlock-always', ['C12'], ['C12-R3'],
  (F, "            self._thread_lock = threading.Lock()", "            self._thread_lock = threading.RLock()"))
B('fl-normalise-always-blocking', ['C12'], ['C12-R6'],
  (F, "            blocking = blocking if timeout < 0 else True", "            blocking = True"))
B('fl-normalise-nonblocking-default-timeout', ['C12'], ['C12-R6'],
  (F, "            timeout = self.timeout if blocking else -1", "            timeout = self.timeout"))
B('fl-unheld-release-resets', ['C12'], ['C12-R4'],
  (F, "        if not self.is_locked:\n            return\n\n        self._decrement", "        if not self.is_locked:\n            self._lock_counter = 0\n            return\n\n        self._decrement"))
B('fl-sleep-constant', ['C12'], ['C12-R8'],
  (F, "time.sleep(poll_interval)", "time.sleep(1)"))
B('fl-os-release-failure-keeps-tl', ['C12'], ['C12-R9', 'C12-R1'],
  (F, """            except:  # noqa
                _logger.exception("Failed to release lock %s on %s", lid, fn)
            else:""", """            except:  # noqa
                _logger.exception("Failed to release lock %s on %s", lid, fn)
                return
            else:"""))
B('fl-acquire-ctx-ignores-result', ['C02'], ['C02-R7'],
  (F, """        if not self.acquire(blocking, timeout, poll_interval):
            raise TimeoutError("Failed to acquire file lock:", self._lock_file)
        try:""", """        self.acquire(blocking, timeout, poll_interval)
        try:"""))

T('fl-rename-attrs', ['C02', 'C12', 'C13'],
  (F, "_thread_lock", "_tl", 'all'), (F, "_lock_counter", "_depth", 'all'), (F, "_lock_file_fd", "_fd", 'all'))
T('fl-enter-via-variable', ['C02'],
  (F, ENTER_FIXED, """        ok = self.acquire()
        if not ok:
            raise TimeoutError("Failed to acquire file lock:", self._lock_file)
        return self
"""))
T('fl-flags-reordered', ['C02', 'C13'],
  (F, "fcntl.LOCK_EX | (0 if block else fcntl.LOCK_NB)", "(0 if block else fcntl.LOCK_NB) | fcntl.LOCK_EX"))
T('fl-flags-negated-test', ['C02', 'C13'],
  (F, "(0 if block else fcntl.LOCK_NB)", "(fcntl.LOCK_NB if not block else 0)"))
T('fl-release-extra-levels-form', ['C12', 'C02'],
  (F, """        levels = 1  # Levels of the thread lock to release
""", """        extra = 0
"""),
  (F, """            levels += self._lock_counter
            self._lock_counter = 0
""", """            extra = self._lock_counter
            self._lock_counter = 0
"""),
  (F, """            for _ in range(levels):
                self._thread_lock.release()
""", """            self._thread_lock.release()
            for _ in range(extra):
                self._thread_lock.release()
"""))
T('fl-lock-kind-ifexp', ['C12'],
  (F, """        if self._reentrant:
            self._thread_lock = threading.RLock()
        else:
            self._thread_lock = threading.Lock()""", """        self._thread_lock = threading.RLock() if self._reentrant else threading.Lock()"""))
T('fl-open-mode-reordered', ['C13'],
  (F, "os.O_RDWR | os.O_CREAT | os.O_TRUNC", "os.O_CREAT | os.O_TRUNC | os.O_RDWR"))
T('fl-inline-cleanup', ['C12', 'C02'],
  (F, """                    _logger.debug('Failed to acquire lock %s on %s', lid, fn)
                    _cleanup_thread_lock()
                    return False""", """                    _logger.debug('Failed to acquire lock %s on %s', lid, fn)
                    self._decrement_lock_counter()
                    self._thread_lock.release()
                    return False"""))
